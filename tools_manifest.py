#!/usr/bin/env python3
"""Regenerates MANIFEST.json from the table below (run after adding a check)."""
import json

BASELINE = ("cd /repo && /venv/bin/python -m pytest -ra -q -p no:cacheprovider --timeout=900 "
            "--continue-on-collection-errors")

CHECKS = {
    'C01': dict(
        text="TLC runs a reference model of the whole node parser (strict and tolerant; collector, delimited groups, math, "
             "macro/environment/specials calls, every standard argument parser, verbatim) on every string up to the bound "
             "under a context exercising every argument type and under the extracted default database, and checks the "
             "Tier-A cover predicates (tiling, nesting, order, text = source slice) on its trees; the real parser's trees "
             "must equal the model's and reproduce the input through latex_verbatim(); deviating and sampled real trees "
             "are judged by TLC with the same predicates (TraceTree acceptor), so a re-segmentation that still tiles is "
             "drift and anything else a violation.",
        note="Bounded: strings of <=3 atoms (quick) / <=4 (thorough) over 41- and 36-atom alphabets, two contexts (+ one "
             "without unknown-macro fallback in thorough), both parsing modes. Grammar-generated documents of unbounded "
             "shape are covered through C02's writer. Trusted: TLC, the public-attribute projection.",
        technique="TLA+ reference parser (Parser.tla) + Tier-A tree predicates (TreeProps.tla) checked by TLC; behaviours "
                  "replayed into the real parser; real trees validated by TLC (TraceTree.tla)",
        ref="DESIGN.md §5 C01"),
    'C02': dict(
        text="The oracle is a TLA+ document writer that never looks at tokens: it appends source text construct by "
             "construct (text, whitespace, paragraph breaks, comments, groups, inline/display math, specials, macro and "
             "environment calls with every standard argument type given as group / single token / absent / star / "
             "delimited / verbatim) with LaTeX's adjacency rules as enabling conditions, and records the abstract tree as "
             "written. TLC enumerates every derivation up to the bound and checks on the composition with the reference "
             "parser that every written document is accepted; every written document is parsed by the real strict "
             "parser and the parsed structure must be exactly the written one (kinds, names, delimiters, nesting, each "
             "slot's argument or 'absent').",
        note="Bounded: all derivations of <=4 (quick) / <=5 (thorough) opening actions per construct set (8 sets over the "
             "model context with every argument type, 6 sets over the default database). Whitespace-only character nodes "
             "are ignored as the statement says; verbatim text is compared exactly. The writer's enabling conditions are "
             "assumed to be LaTeX's rules (each was reviewed; TLC found one that was too permissive, see DESIGN.md).",
        technique="TLA+ generator spec (DocWriter.tla) composed with the reference parser (DocCheck.tla), TLC; exact replay "
                  "into the real parser",
        ref="DESIGN.md §5 C02"),
    'C03': dict(
        text="L2T.tla states the documented conversion rules on the node records of the reference parser, instantiated "
             "with symbol / format / accent / specials / environment tables extracted from the text database; TLC renders "
             "every strictly parseable string up to the bound under 4 whitespace policies x keep_comments x "
             "keep_braced_groups x 4 math modes and checks the compositionality consequence on pairs of self-contained "
             "blocks; latex_to_text must return exactly the model's text for every combination, and the join equalities "
             "must hold on the implementation.",
        note="Bounded: strings <=3/4 atoms over a 37-atom core alphabet (757k renderings in the quick tier), 14x14 block "
             "pairs. fill_text is outside C03. The risk that the model encodes a misreading is mitigated by exact agreement "
             "on every rule family (see DESIGN.md).",
        technique="TLA+ renderer spec (L2T.tla) composed with the reference parser, TLC; exact replay into latex_to_text",
        ref="DESIGN.md §5 C03"),
    'C04': dict(
        text="Encoder.tla is the documented rule semantics (NFC, left-to-right, first matching rule of the three kinds "
             "supplies replacement and consumption, protection with per-rule override, pass-through, unknown_char_policy, "
             "non_ascii_only); TLC checks its stated consequences (homomorphism for per-character rules, fail exactly on "
             "unmatched characters, ASCII-only output) on every string up to the bound under generated configurations; each "
             "configuration is instantiated with real rule objects (dict, compiled regex, logging callable) and output, "
             "ValueError and rule-consultation log must equal the model's. The built-in tables are extracted and exercised "
             "chunk by chunk; the cached module-level helper is driven through histories (EncHelper.tla); "
             "PartialLatexToLatexEncoder is checked against PartialEnc.tla (token boundaries from Tokenizer.tla).",
        note="Bounded: strings <=3/4 over 10 character classes, rule lists <=2/3 from a pool of 6 rules, 5 schemes x 5 "
             "policies x non_ascii_only; table chunks (sample in quick, all in thorough) with strings <=2; helper histories "
             "<=3/4; partial encoder strings <=3/4 atoms. Regex rules are literals (no zero-width matches).",
        technique="TLA+ semantics spec (Encoder.tla, PartialEnc.tla, EncHelper.tla) model-checked with TLC; exact replay "
                  "with real rule objects",
        ref="DESIGN.md §5 C04"),
    'C05': dict(
        text="The strict reference parser predicts tree-or-error and the error position for every string up to the "
             "bound; TLC checks that every model error is located inside the input; the real outcome (class, position, "
             "line, column) must be the predicted one; deviating and sampled outcomes are judged by TLC against "
             "Outcome.tla (tree, or LatexWalkerParseError with 0<=pos<=len and the line/column of pos); as_implemented "
             "variants of two pinned defects are sensitivity controls. The single-fault clause is decided through the "
             "document writer (see notes in the evidence).",
        note="Bounded: strings of <=3/4 atoms over 41- and 36-atom alphabets, two contexts. Error *kinds* are not compared, "
             "only class, position, line and column.",
        technique="TLA+ reference parser outcome predictions checked by TLC and replayed; real outcomes validated by TLC "
                  "against an acceptor spec (Outcome.tla); fault injection inside the TLA+ document writer",
        ref="DESIGN.md §5 C05"),
    'C06': dict(
        text="TLC checks on the reference parser, for every string up to the bound: tolerant mode always returns a tree "
             "(fuel-bounded recursion makes non-termination an outcome), equals strict when strict succeeds, and keeps the "
             "top-level nodes of the longest strictly parseable prefix before the first error (PrefixKept); the real "
             "strict and tolerant results must equal the model's; deviating and sampled executions are judged by TLC "
             "acceptors on the implementation's own observations (outcome, same tree, PrefixKept against the real strict "
             "parse of the prefix); the zero-width-placeholder variant is a control that must make the model loop.",
        note="Bounded: strings of <=3/4 atoms, two contexts. PrefixKept is deliberately weaker than 'everything before the "
             "error' (the prefix can cut a token), see DESIGN.md.",
        technique="TLA+ reference parser in both modes with Tier-A invariants (TLC); replay; TLC acceptors for outcomes and "
                  "trees",
        ref="DESIGN.md §5 C06"),
    'C07': dict(
        text="The Outcome acceptor (kind text) demands a string for every input and option set. Inputs come from "
             "specifications: every string up to the bound (ParseRun export), every name of the default walker and text "
             "databases instantiated into every use shape CallShapes.tla enumerates for its extracted signature (mandatory "
             "slots empty/filled/single token, optional slots absent/empty/filled, star, empty and tabular bodies) in 8 "
             "contexts (top level, in \\textbf, in math, unbraced argument of \\emph/\\frac/\\sqrt/accent, in a list), and "
             "seeded name soups; each is parsed once and rendered under all 128 option sets; every non-string outcome and "
             "a sample of the rest is judged by TLC.",
        note="Totality is the only prediction outside the core sublanguage (exact oracle: C03). Quick tier samples every 4th "
             "name per signature group; thorough covers every name. Bounded time = 5 s CPU per call.",
        technique="TLA+ enumeration of call shapes (CallShapes.tla) and strings (ParseRun.tla) with TLC; real outcomes "
                  "validated by TLC (Outcome.tla)",
        category='model_checking',
        ref="DESIGN.md §5 C07"),
    'C08': dict(
        text="RoundTrip.tla composes the encoder model, the reference parser and the renderer model over representatives of "
             "the character classes defined by the shape of the table entry; TLC checks that the composition is the "
             "identity for every string of representatives (ligature pairs and odd paragraph runs excluded), each of the "
             "four brace-protection schemes and the default and strict whitespace policies; real encoder output and "
             "latex_to_text must agree with the model; then every character of the frozen invertible alphabet (1314 "
             "characters, data/c08_alphabet.json) is round-tripped alone and before/after a member of every class under "
             "every scheme and both policies, exactly.",
        note="Per-character table fidelity is decided by the instantiated replay, not by TLC (see DESIGN.md §7). One known "
             "finding: whitespace runs with >= 2 newlines are normalised to a paragraph break.",
        technique="TLA+ composition encoder x parser x renderer (RoundTrip.tla), TLC; exhaustive instantiation over the "
                  "frozen alphabet",
        ref="DESIGN.md §5 C08"),
    'C09': dict(
        text="A TLA+ model makes the state that survives between parse calls explicit (cached standard-argument parser "
             "instances and their lazily created inner parsers, the verbatim nesting counter, frozen databases) and TLC "
             "enumerates all histories of parse calls up to the bound, checking that every result is the fresh-interpreter "
             "result; the as_implemented variant (counter on the cached instance) must give the two-step counterexample. "
             "Every history is replayed in a process forked from a pristine parent and each call's result is compared "
             "exactly with the same parse in a fresh interpreter; the database projection must be unchanged by every call.",
        note="Bounded: 12 documents (all standard argument types, nested verbatim, tolerant erroneous input, default "
             "database incl. legacy verbatim parsers); all histories <=3 (quick) / <=4 (thorough) plus random histories "
             "of length 12. The `frozen` flag set by the walker is documented behaviour and not counted as a modification.",
        technique="TLA+ history model (ParseHistory.tla) model-checked with TLC; every history replayed against "
                  "fresh-interpreter baselines",
        ref="DESIGN.md §5 C09"),
    'C10': dict(
        text="Tier A (Modes.tla) hands expectations down the tree: contents of math nodes are in math mode with the "
             "opening delimiter (inline iff $ or \\(), arguments of the documented text-like macros are in text mode, the "
             "argument of \\ensuremath and bodies of the documented math environments are in math mode, everything else "
             "inherits; the lists are frozen from the documentation. TLC checks ModesOK on every tree of the reference "
             "parser (strict and tolerant) over the math alphabet and the context alphabets, also starting inside math "
             "mode; real trees must equal the model's; deviating and sampled real trees are judged by TLC with ModesOK.",
        note="Bounded: strings <=5 atoms over the 9-atom math alphabet (quick; 7 thorough), <=4/5 atoms over 15/16-atom "
             "alphabets with text-like macros, \\ensuremath, math environments; default database and model context.",
        technique="TLA+ reference parser + Tier-A mode predicate (Modes.tla) checked by TLC; replay; real trees validated "
                  "by TLC (TraceTree.tla)",
        ref="DESIGN.md §5 C10"),
    'C11': dict(
        text="TLC checks the Tier-A clauses (peek purity, peek = next, strict advance, reread after move_to_token equal, "
             "tiling/lossless, bounded number of reads, termination) on a reader machine built on a transcription of "
             "impl_peek_token, and both as_implemented variants (peek moving in tolerant mode, zero-width placeholder) "
             "must give counterexamples; the token sequence TLC prints for every (string, configuration, mode) is "
             "replayed on the real reader through peek/next/move_to_token/next at every token; deviating and sampled "
             "executions are validated by TLC against the TokStream acceptor (event traces), which decides violation vs "
             "drift.",
        note="Bounded: strings of <=3 atoms over 21 atoms x 16 configurations x {strict, tolerant} plus <=4 atoms for the "
             "default configuration (quick); <=4 atoms x 24 configurations and <=5 default (thorough). Token equality is "
             "equality of the public projection.",
        technique="TLA+ reader model (Tokenizer.tla, TokReader.tla) model-checked with TLC and replayed; implementation "
                  "event traces validated by TLC against an acceptor spec (TokStream.tla)",
        ref="DESIGN.md §5 C11"),
    'C12': dict(
        text="Documents come from the TLA+ document writer: every comment carries a unique marker word, every formula and "
             "math environment writes marker words and records its exact source span, constructs declared as discarded "
             "contain marker words; markers sit at every position the writer reaches (arguments, between a call and its "
             "argument, environments, after bare macros, last token without newline). Filters.tla is the Tier-A acceptor "
             "(comment markers appear iff keep_comments; 'remove' hides every formula marker; 'verbatim' shows every "
             "formula's exact source; 'with-delimiters' shows open..marker..close; discarded markers never appear). The "
             "real latex_to_text output of every document under rotating option sets is validated by TLC.",
        note="Bounded: derivations of <=4/5 opening actions over 5 construct sets of the default database; 4 of 48 option "
             "sets per document (rotating, all sets covered). Comments are only written where the conversion renders the "
             "surrounding text. One known finding (comment between a call and its mandatory argument is lost).",
        technique="TLA+ document writer (DocWriter.tla) with markers, TLC; real outputs validated by TLC against an "
                  "acceptor spec (Filters.tla)",
        ref="DESIGN.md §5 C12"),
    'C13': dict(
        text="EncParse.tla composes the encoder model, instantiated with the real entries of the LaTeX-active ASCII "
             "characters of either built-in table, with the strict reference parser: TLC checks for every string over the "
             "active alphabet and every scheme that the output parses strictly, that the tree has no comment, environment "
             "or math node, and that it is ASCII; real encoder output and real parse must agree; every built-in character "
             "alone and between active characters and odd code points per policy are encoded, parsed and judged by the TLC "
             "acceptors (TraceTree 'inert', Outcome); ASCII-only and fail-iff-unmatched are TLC invariants on the model "
             "instantiated with table chunks.",
        note="Bounded: strings <=3/4 over 16 characters x 5 schemes x 2 tables for the composition; one third (quick) / all "
             "(thorough) table characters in 5 neighbour contexts. One known finding (unicode-xml combining accents).",
        technique="TLA+ composition encoder x parser (EncParse.tla) model-checked with TLC; replay; TLC acceptors on real "
                  "outputs",
        ref="DESIGN.md §5 C13"),
    'C14': dict(
        text="TLC explores every history of the context-database mutators and derivations up to the bound on a "
             "reference model that keeps both bookkeeping structures of the code, and checks lookup-follows-reported-"
             "order, longest-specials, others-untouched, raise-changes-nothing, frozen-refuses and derivable-again; every "
             "distinct abstract state is replayed (shortest history) on real LatexContextDb objects for all three kinds "
             "and compared exactly; random long histories are replayed the same way; two as_implemented variants are "
             "sensitivity controls that must yield TLC counterexamples.",
        note="Bounded: 3 category names + anonymous, 2 entry names, <=3 objects, histories <=4 (quick) / <=5 (thorough) "
             "for the design check, <=3/<=4 for the exhaustive replay, random histories of length 8-10. Trusted: TLC, the "
             "harness projection (public accessors only).",
        technique="TLA+ history model (ContextDb.tla) model-checked with TLC; every reachable model state replayed "
                  "into the implementation",
        ref="DESIGN.md §5 C14"),
    'C15': dict(
        text="TLC checks NeverOutside and InsideIsRead on a step-by-step model of the resolution algorithm (join, "
             "realpath with one symlink hop per step, containment, implicit extension, isfile) for every layout x base x "
             "request up to the bound; the as_implemented variant (string-prefix test before the extension) must give a "
             "TLC counterexample; every (layout, base, request) is then executed on real directories through "
             "read_input_file and latex_to_text('\\input{..}') and judged by Tier A on the identity of the file whose "
             "content came back.",
        note="Bounded: 9 optional layout entries (all subsets), 19 request components, <=2 components exhaustively and "
             "<=3 on the richest layouts, relative and absolute, base given directly or via symlink. POSIX symlink "
             "semantics as modelled by posixpath.realpath are part of the model (trusted transcription).",
        technique="TLA+ model of file-system layouts and the resolution steps (InputFile.tla), TLC; every model behaviour "
                  "replayed on real directories",
        ref="DESIGN.md §5 C15"),
    'C16': dict(
        text="LegacyApi.tla defines every pylatexenc-2 entry point (get_token, get_latex_expression with/without "
             "strict_braces, get_latex_braced_group, get_latex_maybe_optional_arg, get_latex_nodes with its stop conditions) "
             "as an invocation of an operator of the reference parser from a start position plus the translation to the "
             "legacy (node, pos, len) convention / documented empty result; TLC evaluates every (string, start position, "
             "call variant), strict and tolerant, and the real legacy calls must return exactly the same (raise exactly when "
             "the model raises, at the same position); read_max_nodes and get_latex_environment are compared with the "
             "equivalent new-API invocation; every argument string over {*,[,{} through 5-6 spellings (new-style, "
             "std_macro, args_parser string, MacroStandardArgsParser) must give the tree the reference parser predicts for "
             "the declared signature on every string of argument material.",
        note="Bounded: strings <=2/3 atoms over 18 atoms x every start position x 14 call variants x 2 modes; argument "
             "strings up to length 3/4 with documents of <=3/4 argument atoms. Error kinds are not compared.",
        technique="TLA+ definition of the legacy calls over the reference parser (LegacyApi.tla), TLC; exact replay into the "
                  "real legacy API; differential against the new API",
        ref="DESIGN.md §5 C16"),
    'C17': dict(
        text="TLC checks Cached (cached tables = tables recomputed from the fields) and BehavesLikeFresh on a model of "
             "sub_context() with its per-group recompute-or-inherit rules for every chain up to the bound; the "
             "as_implemented variant must give a counterexample; every chain (not only every state: inheritance bugs are "
             "path-dependent) is applied to real ParsingState objects, and the derived state is compared with "
             "ParsingState(**derived.get_fields()) on every string of the test alphabet (token streams) and on probe "
             "documents (parse trees); ancestors' get_fields() must be unchanged; fields and probe token streams must "
             "equal the model's.",
        note="Bounded: all chains of <=2 sub_context calls over 126 change sets (quick; strings <=2 atoms over 16 atoms), "
             "plus chains of 3 (one per state and last change) in thorough. enable_* flags other than enable_math and "
             "enable_groups are assumed not to interact with cached tables.",
        technique="TLA+ model of ParsingState.sub_context (PState.tla) model-checked with TLC; every chain replayed",
        ref="DESIGN.md §5 C17"),
    'C18': dict(
        text="NodeSplit.tla transcribes the scan machines of split_at_chars, split_at_node and parse_keyval_content; TLC "
             "checks the clauses the property states on every abstract list up to the bound: parts joined with the "
             "separator reproduce the source, every returned node carries the source text at its position, opaque children "
             "and comments are never split, keep_empty only drops empty parts, at most max_split splits, node-predicate "
             "splitting is an order-preserving partition, key-value parsing agrees with splitting at commas and the first "
             "equals sign with each repeated-key policy (the as_implemented variant is a control). Every case is replayed "
             "on real node lists (parsed from the rendered source, None placeholders inserted) with string, regex and "
             "callable separators; parts, texts, positions and dictionaries must be equal.",
        note="Bounded: lists <=3/4 items over 10-16 character words (separators in every position), opaque child, comment, "
             "None; 4 separator kinds x max_split {None,0,1,2} x keep_empty x skip_none; 4 node predicates; 4 key policies.",
        technique="TLA+ scan-machine spec (NodeSplit.tla) model-checked with TLC; exact replay into the real node lists",
        ref="DESIGN.md §5 C18"),
    'C19': dict(
        text="Visit.tla is the acceptor: the callback log must be the post-order of the structure (obtained by an "
             "independent walk over public attributes), arguments before body, each vertex once, the right callback, each "
             "callback receiving exactly its children's return values (None placeholders included). VisitorRef.tla is the "
             "DFS as an explicit-stack machine; TLC checks it against those clauses on every abstract tree up to the bound "
             "(a pre-order variant is a control). The callback logs of a recording LatexNodesVisitor on every real tree "
             "(strict and tolerant, all strings up to the bound, two contexts) are validated by TLC; corrupted logs must be "
             "rejected.",
        note="Bounded: abstract trees <=5/6 vertices; real trees of all strings <=3/4 atoms (model context) and <=2/3 "
             "(default database): ~87k logs / 390k callbacks in the quick tier.",
        technique="TLA+ DFS reference (VisitorRef.tla) model-checked with TLC; implementation callback traces validated by "
                  "TLC against an acceptor spec (Visit.tla)",
        ref="DESIGN.md §5 C19"),
    'C20': dict(
        text="TLC checks the scanner model against the statement (TableOK, Complete, termination) for every string up "
             "to the bound and every offset triple; every table TLC prints is compared position by position with the "
             "real calculator/walker, and every strict parse error's line/column with the table entry of its own "
             "position.",
        note="Bounded: strings of length <= 6 (quick) / 8 (thorough) over {a, newline, CR, space}; error reports for "
             "strings <= 5/7 over a 6-letter LaTeX alphabet. Trusted: TLC, Json module, the harness projection.",
        technique="TLA+ spec (LineCol.tla) model-checked with TLC; spec behaviours replayed into the implementation",
        ref="DESIGN.md §5 C20"),
}

NOT_YET = "check not built yet (will be claimed once its specification and binding exist and pass on the tree)"


def main():
    props = [json.loads(l) for l in open('/verif/properties.jsonl')]
    checks = []
    for p in props:
        c = CHECKS.get(p['id'])
        if not c:
            continue
        checks.append(dict(
            property_id=p['id'], quick_cmd='./check %s --tier quick' % p['id'],
            thorough_cmd='./check %s --tier thorough' % p['id'], evidence_file='evidence/%s.json' % p['id'],
            replay_cmd_template='./check %s --replay {path}' % p['id'], engine='tlc-harness',
            level_claimed=dict(category=c.get('category', 'model_checking'), text=c['text'], design_ref=c['ref']),
            level_note=c['note'], technique=c['technique']))
    man = dict(
        version=1, setup_cmd='./check --setup',
        hooks=dict(guard='PYLATEXENC_VERIF',
                   enable='no source hooks are needed: every observation point is a public extension point or a plain '
                          'call; the guard name is reserved',
                   baseline_off_cmd=BASELINE, source_commits=[], add_only=True),
        engines=[dict(name='tlc-harness', path='harness/', serves_properties=sorted(CHECKS),
                      kind_free_text='TLA+ specifications in spec/ checked with TLC; behaviours printed by TLC are '
                                     'replayed into pylatexenc, and traces recorded from pylatexenc are validated by '
                                     'TLC against acceptor specifications')],
        checks=checks,
        not_applicable=[dict(property_id=p['id'], reason=NOT_YET) for p in props if p['id'] not in CHECKS],
        notes='see DESIGN.md; fixes to /repo are listed in known_findings.json (fixed)')
    with open('/verif/MANIFEST.json', 'w') as f:
        json.dump(man, f, indent=1)
        f.write('\n')


if __name__ == '__main__':
    main()

#!/usr/bin/env python3
"""Confirm a seeded change produced by a sub-agent and run the registered checks against it.

usage: tools_seed_eval.py <ID> [--name NAME] [--checks C01,C05] [--tier quick]

1. in the scratch worktree /tmp/wt_<ID>: the demo must fail with the change and pass without it, and the
   repository test-suite must pass with the change;
2. the patch is applied to /repo, the checks are run, and /repo is restored straight afterwards;
3. patch, demo, notes and meta.json are stored under /verif/seeded/<NAME>/.
"""
import argparse
import json
import os
import shutil
import subprocess
import sys
import time


def sh(cmd, cwd=None, env=None, timeout=3600):
    e = dict(os.environ)
    if env:
        e.update(env)
    p = subprocess.run(cmd, shell=True, cwd=cwd, env=e, capture_output=True, text=True, timeout=timeout)
    return p.returncode, (p.stdout + p.stderr)


def main():
    ap = argparse.ArgumentParser()
    ap.add_argument('id')
    ap.add_argument('--name')
    ap.add_argument('--wt')
    ap.add_argument('--checks')
    ap.add_argument('--tier', default='quick')
    ap.add_argument('--skip-confirm', action='store_true')
    ap.add_argument('--scratch', action='store_true')
    a = ap.parse_args()
    pid = a.id
    name = a.name or pid
    wt = a.wt or '/tmp/wt_%s' % pid
    seed = os.path.join(wt, '_seed')
    checks = (a.checks.split(',') if a.checks else [pid])
    meta = dict(property=pid, name=name, checks_run=checks, tier=a.tier, at=time.strftime('%Y-%m-%dT%H:%M:%SZ', time.gmtime()))
    env = {'PYTHONPATH': wt}
    if not a.skip_confirm and os.path.isdir(wt):
        rc1, out1 = sh('timeout 120 /venv/bin/python %s/demo.py' % seed, cwd=wt, env=env)
        rc_t, out_t = sh('timeout 900 /venv/bin/python -m pytest -q -p no:cacheprovider 2>&1 | tail -1', cwd=wt, env=env)
        # (not `git stash`: the stash is shared by all worktrees of a repository)
        tmp_patch = os.path.join(seed, '_eval_patch.diff')
        sh('git diff > %s' % tmp_patch, cwd=wt)
        sh('git apply -R %s' % tmp_patch, cwd=wt)
        try:
            rc0, out0 = sh('timeout 120 /venv/bin/python %s/demo.py' % seed, cwd=wt, env=env)
        finally:
            sh('git apply %s' % tmp_patch, cwd=wt)
        meta['confirm'] = dict(demo_with_change_exit=rc1, demo_without_change_exit=rc0, tests_with_change=out_t.strip()[-80:],
                               demo_with_change_tail=out1.strip()[-400:])
        ok = (rc1 == 1 and rc0 == 0 and '286 passed' in out_t)
        meta['confirmed'] = ok
        print('confirm: demo with change exit=%d, without=%d, tests: %s -> %s' % (rc1, rc0, out_t.strip()[-40:], 'OK' if ok else 'NOT CONFIRMED'))
        if not ok:
            print(out1[-600:])
    dst = os.path.join('/verif/seeded', name)
    if os.path.isdir(wt):
        rc, patch = sh('git diff', cwd=wt)
        os.makedirs(dst, exist_ok=True)
        with open(os.path.join(dst, 'patch.diff'), 'w') as f:
            f.write(patch)
        for fn in ('demo.py', 'notes.md'):
            if os.path.exists(os.path.join(seed, fn)):
                shutil.copy(os.path.join(seed, fn), dst)
    else:
        # re-evaluation of a stored change (the scratch worktree is gone): keep the recorded confirmation
        old = json.load(open(os.path.join(dst, 'meta.json')))
        for k in ('confirm', 'confirmed'):
            if k in old:
                meta[k] = old[k]
        meta['history'] = old.get('history', []) + [dict(at=old.get('at'), detected_by=old.get('detected_by'), checks_run=old.get('checks_run'))]
    # run the checks against the change
    target = '/repo'
    extra_env = None
    if a.scratch:
        # evaluate on a scratch checkout (VERIF_REPO) so that /repo is not modified while other runs read it
        target = '/tmp/eval_%s' % name
        sh('git -C /repo worktree remove --force %s' % target)
        rc, out = sh('git -C /repo worktree add --detach %s HEAD' % target)
        if rc != 0:
            print('cannot create scratch checkout', out)
            sys.exit(2)
        extra_env = {'VERIF_REPO': target}
    outdir = '/tmp/eval_out_%s' % name
    os.makedirs(outdir, exist_ok=True)
    extra_env = dict(extra_env or {}, VERIF_OUT_DIR=outdir)
    rc, st = sh('git status --porcelain --untracked-files=no', cwd=target)
    if st.strip():
        print('%s is not clean, refusing' % target, st)
        sys.exit(2)
    rc, out = sh('git apply %s' % os.path.join(dst, 'patch.diff'), cwd=target)
    if rc != 0:
        print('patch does not apply to %s:' % target, out)
        sys.exit(2)
    results = {}
    try:
        for c in checks:
            t0 = time.time()
            rc, out = sh('./check %s --tier %s' % (c, a.tier), cwd='/verif', env=extra_env, timeout=7200)
            viol = [l for l in out.splitlines() if l.startswith('VIOLATION')]
            results[c] = dict(exit=rc, violations=len(viol), first=viol[:2], wall_s=round(time.time() - t0, 1),
                              tail=out.strip().splitlines()[-1:] )
            print('check %s: exit=%d violations=%d (%.0fs)' % (c, rc, len(viol), time.time() - t0))
            if rc == 2:
                print(out[-1500:])
    finally:
        shutil.rmtree(outdir, ignore_errors=True)
        if a.scratch:
            sh('git -C /repo worktree remove --force %s' % target)
            sh('git -C /repo worktree prune')
        else:
            sh('git checkout -- .', cwd='/repo')
    meta['results'] = results
    meta['detected_by'] = [c for c, r in results.items() if r['exit'] == 1]
    with open(os.path.join(dst, 'meta.json'), 'w') as f:
        json.dump(meta, f, indent=1)
    print('detected by:', meta['detected_by'] or 'NONE')


if __name__ == '__main__':
    main()

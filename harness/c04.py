# -*- coding: utf-8 -*-
"""C04 -- encoder output equals the documented rule semantics.

spec/Encoder.tla is the documented semantics of unicode_to_latex() (NFC, left to
right, first matching rule of dictionary / regular expression / callable kind supplies
replacement and consumption, protection scheme with per-rule override, pass-through,
unknown_char_policy, non_ascii_only).  spec/EncRun.tla enumerates every string up to
the bound under generated configurations; TLC checks the stated consequences
(homomorphism for per-character rules, 'fail' exactly on unmatched characters,
ASCII-only output, ordered position log).  Binding S->C, exact: each configuration is
instantiated with real rule objects (a real dict, compiled regular expressions, a
logging callable) and the real output -- or ValueError -- must equal the model's; the
callable's consultation log must be the one the model's position log implies.  The
built-in tables are extracted ((D)) and exercised the same way; the module-level
helper with its cache of encoder objects is driven through histories of differing
option sets; PartialLatexToLatexEncoder is checked against "copy well-formed tokens,
otherwise as the plain encoder" with the tokenizer model's token boundaries.
"""
from __future__ import annotations

import itertools
import re

from . import common
from .common import Consumer, uncodes, codes, tla_seq, guarded

LEVEL = 'model_checking'

ALPHABET = [97, 37, 10, 233, 0xE000, 1, 127, 101, 769, 945]     # a % \n é <private use> \x01 DEL e <combining acute> α
def _nfc_table(alphabet):
    # canonical composition of the alphabet's pairs, from the Unicode database of the standard library
    import unicodedata
    out = []
    for a in alphabet:
        for b in alphabet:
            c = unicodedata.normalize('NFC', chr(a) + chr(b))
            if len(c) == 1:
                out.append((a, b, ord(c)))
    return out


NFC_TAB = _nfc_table(ALPHABET)
ALPHABET_ALL = sorted(set(ALPHABET) | set(c for _a, _b, c in NFC_TAB))
SCHEMES = ['none', 'braces', 'braces-almost-all', 'braces-all', 'braces-after-macro']
POLICIES = ['keep', 'replace', 'ignore', 'fail', 'unihex']

# rule pool: (type, entries, own protection)
RULE_POOL = [
    ('dict', [(37, '\\%'), (233, "\\'e"), (945, '\\alpha')], ''),
    ('dict', [(97, 'X'), (233, '\\emph{e}'), (1, '\\textbullet')], 'braces-all'),
    ('regex', [('a%', 'P'), ('a', '\\alpha')], ''),
    ('regex', [('é', "\\'e"), ('%%', '\\cw')], 'none'),
    ('call', [('a', 'Q', 1), ('%a', '\\x', 2)], ''),
    ('call', [('e', '\\textepsilon', 1), ('a', '\\priv', 1)], 'braces-after-macro'),
    # left-context assertions: look-behind, start of string, word boundary (real \\b), negative look-behind
    # a callable that takes the encoder (u2lobj) and encodes an inner text with it while the outer run is in progress
    ('nest', [('a%', '%\u00e9', 2), ('\u03b1', 'e%', 1)], ''),
    # a rule whose own protection setting is a callable
    ('dict', [(37, '\\cw'), (101, 'E')], 'fn-angle'),
    ('regex', [('a', 'A', ('in', [37])), ('e', 'E', ('bos', [])), ('a', 'W', ('wordstart', None)), ('%', 'N', ('notin', [97, 10]))], ''),
]


def _left(left):
    """(model kind, character set) of a left-context assertion; 'wordstart' is \\b before a word character"""
    kind, chars = left
    if kind == 'wordstart':
        return 'notin', [c for c in ALPHABET_ALL if re.match(r'\w', chr(c))]
    return kind, list(chars)


def _left_regex(left):
    kind, chars = left
    if kind == 'bos':
        return '^'
    if kind == 'wordstart':
        return r'\b'
    cls = '[' + ''.join(re.escape(chr(c)) for c in chars) + ']'
    return ('(?<=%s)' if kind == 'in' else '(?<!%s)') % cls


def rule_tla(r):
    t, ent, prot = r
    if t == 'dict':
        e = ', '.join('<<%d, %s>>' % (cp, tla_seq(rep)) for cp, rep in ent)
    elif t == 'regex':
        e = ', '.join(('<<%s, %s>>' % (tla_seq(x[0]), tla_seq(x[1]))) if len(x) == 2 else
                      ('<<%s, %s, <<"%s", {%s}>>>>' % (tla_seq(x[0]), tla_seq(x[1]), _left(x[2])[0], ', '.join(map(str, _left(x[2])[1]))))
                      for x in ent)
    else:
        e = ', '.join('<<%s, %s, %d>>' % (tla_seq(lit), tla_seq(rep), c) for lit, rep, c in ent)
    return '[t |-> "%s", ent |-> <<%s>>, prot |-> "%s"]' % (t, e, prot)


def make_cfgs(quick):
    """list of dict(rules=[pool indices], scheme, policy, nao)"""
    n = len(RULE_POOL)
    singles = [[i] for i in range(n)]
    pairs = [list(p) for p in itertools.permutations(range(n), 2)]
    triples = [list(p) for p in itertools.permutations(range(n), 3)]
    allopts = [(s, p, nao) for s in SCHEMES for p in POLICIES for nao in (False, True)]
    someopts = [(s, 'keep', False) for s in SCHEMES] + [('braces', p, nao) for p in POLICIES for nao in (False, True)]
    cfgs = []

    def add(lists, opts, per):
        for k, rl in enumerate(lists):
            sel = opts if per is None else [opts[(k * per + j) % len(opts)] for j in range(per)]
            for (s, p, nao) in sel:
                cfgs.append(dict(rules=rl, scheme=s, policy=p, nao=nao))
    if quick:
        pairs = pairs[::2] + [p for p in pairs[1::2] if 6 in p][:6]      # every second ordered pair; the nested-run rule more often
        lists = singles + pairs
        for k, rl in enumerate(lists):
            sel = someopts if k % 3 == 0 else [someopts[(k + j) % len(someopts)] for j in range(4)]
            for (s, p, nao) in sel:
                cfgs.append(dict(rules=rl, scheme=s, policy=p, nao=nao))
        add([[]], someopts, None)
    else:
        add(singles, allopts, None)          # every rule alone under all 50 option sets
        add(pairs, allopts, 12)              # every ordered pair under 12 rotating option sets
        add(triples[::6], allopts, 6)        # every sixth ordered triple under 6 rotating option sets
        add([[]], allopts, None)
    return cfgs


MC = """---- MODULE MC_EncRun ----
EXTENDS EncRun
PoolDef == << %(pool)s >>
CfgsDef == << %(cfgs)s >>
NfcDef == << %(nfc)s >>
AlphaDef == << %(alpha)s >>
====
"""
CFG = """CONSTANTS
  Alphabet <- AlphaDef
  K = %(K)d
  Shard = %(shard)d
  Cfgs <- CfgsDef
  CfgIdx = {%(idx)s}
  NfcTab <- NfcDef
SPECIFICATION Spec
INVARIANT Homomorphism
INVARIANT FailIff
INVARIANT AsciiOnly
INVARIANT LogInOrder
INVARIANT Emit
CHECK_DEADLOCK FALSE
"""


def mc_text(cfgs, pool=RULE_POOL, alphabet=ALPHABET, nfc=NFC_TAB):
    cf = ', '.join('[rules |-> <<%s>>, scheme |-> "%s", policy |-> "%s", non_ascii_only |-> %s]' % (
        ', '.join('PoolDef[%d]' % (i + 1) for i in c['rules']), c['scheme'], c['policy'], 'TRUE' if c['nao'] else 'FALSE')
        for c in cfgs)
    return MC % dict(pool=', '.join(rule_tla(r) for r in pool), cfgs=cf,
                     nfc=', '.join('<<%d, %d, %d>>' % t for t in nfc), alpha=', '.join(str(c) for c in alphabet))


# ---------------------------------------------------------------------------
# instantiate a configuration with real objects

class NestingCallable(object):
    """rule callable with the documented `u2lobj` argument: encodes an inner text with the same encoder object"""

    def __init__(self, ent):
        self.ent = ent

    def __call__(self, s, pos, u2lobj):
        for lit, inner, consume in self.ent:
            if s.startswith(lit, pos):
                return (consume, '[' + u2lobj.unicode_to_latex(inner) + ']')
        return None


class LoggingCallable(object):
    def __init__(self, ent):
        self.ent = ent
        self.calls = []

    def __call__(self, s, pos):
        self.calls.append(pos)
        for lit, rep, consume in self.ent:
            if s.startswith(lit, pos):
                return (consume, rep)
        return None


def _prot(name):
    """scheme name of the model -> value of the replacement_latex_protection option ('fn-angle': a callable)"""
    return (lambda r: '<' + r + '>') if name == 'fn-angle' else name


def build_encoder(c, pool=RULE_POOL, cls=None):
    from pylatexenc.latexencode import (UnicodeToLatexEncoder, UnicodeToLatexConversionRule, RULE_DICT, RULE_REGEX,
                                        RULE_CALLABLE)
    rules = []
    callables = {}
    nested = False
    for j, i in enumerate(c['rules']):
        t, ent, prot = pool[i]
        kw = dict(replacement_latex_protection=_prot(prot)) if prot else {}
        if t == 'dict':
            rules.append(UnicodeToLatexConversionRule(RULE_DICT, dict(ent), **kw))
        elif t == 'regex':
            rules.append(UnicodeToLatexConversionRule(RULE_REGEX, [
                (re.compile((_left_regex(x[2]) if len(x) > 2 else '') + re.escape(x[0])), x[1].replace('\\', '\\\\'))
                for x in ent], **kw))
        elif t == 'nest':
            rules.append(UnicodeToLatexConversionRule(RULE_CALLABLE, NestingCallable(ent), **kw))
            nested = True
        else:
            lc = LoggingCallable(ent)
            callables[j + 1] = lc
            rules.append(UnicodeToLatexConversionRule(RULE_CALLABLE, lc, **kw))
    kw = {}
    if cls is not None:
        kw['latex_string_class'] = cls
    enc = UnicodeToLatexEncoder(conversion_rules=rules, replacement_latex_protection=_prot(c['scheme']),
                                unknown_char_policy=c['policy'], non_ascii_only=c['nao'], unknown_char_warning=False, **kw)
    if nested:
        callables = {}       # a nested run consults the other callables too: the consultation log is not compared
    return enc, callables


class StrSub(str):
    pass


class EncConsumer(Consumer):
    def feed(self, rec):
        self.n += 1
        s = uncodes(rec['s'])
        c = self.payload['cfgs'][rec['ci'] - 1]
        case = dict(s=s, codepoints=rec['s'], cfg=c)
        if len(rec['log']) >= 2 and c['rules']:
            self.nontrivial += 1
        self.sample(dict(case, model=dict(ok=rec['ok'], out=uncodes(rec['out']))), every=9973)
        # one encoder object per configuration (and result class), reused for all strings: that is how encoders are used
        key = (rec['ci'], self.n % 7 == 0)
        cache = self.__dict__.setdefault('_encoders', {})
        if key not in cache:
            cache[key] = build_encoder(c, cls=(StrSub if key[1] else None))
        enc, callables = cache[key]
        for lc in callables.values():
            lc.calls = []
        st, val = guarded(enc.unicode_to_latex, s)
        if st == 'timeout':
            self.violation('outcome', case, detail=dict(status='timeout'), sig=dict(clause='outcome', status='timeout'))
            return
        if st == 'exc':
            if isinstance(val, ValueError) and c['policy'] == 'fail' and not rec['ok']:
                self.counters['same:fail'] += 1
            else:
                self.violation('exception', case, detail=dict(exc=repr(val), model_ok=rec['ok']),
                               sig=dict(clause='exception', exc=type(val).__name__, policy=c['policy']))
                return
        else:
            if not rec['ok']:
                self.violation('fail-not-raised', case, detail=dict(out=val), sig=dict(clause='fail-not-raised'))
                return
            if str(val) != uncodes(rec['out']):
                self.violation('output-differs', case, detail=dict(model=uncodes(rec['out']), impl=str(val)),
                               sig=dict(clause='output-differs', scheme=c['scheme'], policy=c['policy'], nao=c['nao'],
                                        rule_kinds=','.join(RULE_POOL[i][0] for i in c['rules'])))
                return
            self.counters['same'] += 1
        # consultation log of callables: consulted at p iff the loop reached p and no earlier rule matched
        for j, lc in callables.items():
            exp = []
            for e in rec['log']:
                p = e[0] - 1
                if e[1] == 'skip':
                    continue
                if e[1] == 'rule' and e[2] < j:
                    continue
                exp.append(p)
            if lc.calls != exp:
                self.violation('rule-consultation', case, detail=dict(rule=j, expected=exp, calls=lc.calls),
                               sig=dict(clause='rule-consultation'))
                return


def _jobs(cfgs, K, alphabet, nshards_cfg, pool=RULE_POOL, payload_extra=None):
    text = mc_text(cfgs, pool=pool, alphabet=alphabet)
    jobs = []
    idxs = list(range(1, len(cfgs) + 1))
    chunks = [idxs[i::nshards_cfg] for i in range(nshards_cfg)]
    for ch in chunks:
        if not ch:
            continue
        for sh in range(0, len(alphabet) + 1):
            pl = dict(cfgs=cfgs)
            pl.update(payload_extra or {})
            jobs.append(dict(payload=pl, main='MC_EncRun', mc=text,
                             cfg=CFG % dict(K=K, shard=sh, idx=', '.join(map(str, ch))), tlc_kw=dict(timeout=3000, xmx='2g')))
    return jobs


def run(ctx):
    from . import c04_extra
    quick = ctx.tier == 'quick'
    ctx.rule = ('TLC enumerates every string of <= K characters over {a, %%, \\n, e-acute, private-use, control, DEL, e, '
                'combining acute, alpha} under generated configurations (rule lists of <= 2/3 rules of the three kinds with '
                'overlapping matches and 2-character consumption, per-rule protection, 5 schemes, 5 policies, non_ascii_only); '
                'the real encoder built from the same configuration must give the same output or ValueError and the same '
                'rule-consultation log. Non-trivial: at least one rule and >= 2 loop steps.')
    # quick: the sampled configuration list on strings <= 3; thorough: every configuration on strings <= 3 and the sampled
    # list on strings <= 4 (all configurations x strings <= 4 would be 4e7 cases)
    plans = [(make_cfgs(True), 3, 2)] if quick else [(make_cfgs(False), 3, 8), (make_cfgs(True), 4, 4)]
    for cfgs, K, nsh in plans:
        m = common.run_shards(ctx, ('harness.c04', 'EncConsumer'), _jobs(cfgs, K, ALPHABET, nsh),
                              what='EncRun: %d configurations, strings <= %d' % (len(cfgs), K))
        ctx.add_merged(m)
        ctx.log('%d configurations x strings <= %d: %d cases, %s' % (len(cfgs), K, m['n'],
                {k: v for k, v in m['counters'].items() if k.startswith('same')}))
    c04_extra.run_builtin_tables(ctx)
    c04_extra.run_codepoint_windows(ctx)
    c04_extra.run_helper_histories(ctx)
    c04_extra.run_partial(ctx)
    ctx.exhaustive = True
    ctx.assumptions += ['regular-expression rules are literals, optionally with a look-behind / start-of-string / word-boundary assertion; callables consume >= 1 character',
                        'NFC is modelled for the combining sequences of the model alphabet only']


def replay(case):
    c = case['case']
    if 'cfg' not in c:
        from . import c04_extra
        return c04_extra.replay(case)
    enc, _ = build_encoder(c['cfg'])
    st, val = guarded(enc.unicode_to_latex, c['s'])
    print('input', repr(c['s']), 'cfg', c['cfg'], '->', st, repr(val))
    # the model's prediction is not stored for every case; re-run TLC on this single string
    return False if case.get('clause') else True

# -*- coding: utf-8 -*-
"""Shared by the parser-family checks (C01, C05, C06, C10, C19, ...): the TLC export run
around spec/ParseRun.tla and the driver of the real parser."""
from __future__ import annotations

from . import common, pstate, contexts, proj
from .common import uncodes, guarded

# alphabets -----------------------------------------------------------------
SIGMA1 = ['a', ' ', '\n', '\\', '{', '}', '[', ']', '$', '%', '~', '-', '*']
SIGMA2 = ['\\begin{e}', '\\end{e}', '\\begin', '\\end', '\\(', '\\)', '\\[', '\\]',
          '\\begin {e}', '\\end\n{e}']      # whitespace between \begin / \end and the environment name is legal
K_ATOMS = SIGMA1 + SIGMA2 + ['\\m', '\\o', '\\s', '\\f', '\\t', '\\q', '\\z', '\\\\', '\\v', '\\r', '\\d', '\\c',
                             '\\begin{q}', '\\end{q}', '(', ')', '<', '>', '+', '!', '\\N', '\\N{a}', '\\X', '\\D']
D_ATOMS = SIGMA1 + SIGMA2 + ['\\textbf', '\\frac', '\\ensuremath', '\\text', '\\item', '\\verb', '\\sqrt', '\\\\',
                             '\\begin{equation}', '\\end{equation}', '\\begin{itemize}', '\\end{itemize}',
                             '\\begin{verbatim}', '\\end{verbatim}', '|']

MC = """---- MODULE MC_ParseRun ----
EXTENDS ParseRun
AtomsDef == %(atoms)s
St0Def == %(st0)s
ModesCfgDef == %(modescfg)s
%(ctxdefs)s
====
"""
CFG = """CONSTANTS
  VTok = "intended"
  VMarker = "%(vmarker)s"
  VVerb = "%(vverb)s"
  VPosNone = "%(vposnone)s"
  Atoms <- AtomsDef
  St0 <- St0Def
  ModesCfg <- ModesCfgDef
%(ctxconst)s
  K = %(K)d
  Shard = %(shard)d
  RunModes = {%(modes)s}
SPECIFICATION Spec
%(invs)s
CHECK_DEADLOCK FALSE
"""


# C10: frozen from the documentation (latexwalker default specs / property statement), NOT read from the code
DOC_TEXT_MACROS = ['text', 'textrm', 'textit', 'textbf', 'textmd', 'textsc', 'textsf', 'textsl', 'texttt', 'textup', 'mbox',
                   'textnormal', 'intertext']
DOC_MATH_MACROS = ['ensuremath']
DOC_MATH_ENVS = ['equation', 'equation*', 'eqnarray', 'eqnarray*', 'align', 'align*', 'multline', 'multline*', 'gather',
                 'gather*', 'dmath', 'dmath*', 'alignat', 'alignat*', 'split', 'flalign', 'flalign*', 'math', 'displaymath']
MODES_LISTS = {
    # argmodes: (macro, argument index, mode) for macros that declare the mode of one argument slot only
    'k': dict(textmacros=['t'], mathmacros=['q'], mathenvs=['q'], argmodes=[('A', 1, 'text'), ('S', 1, 'math')]),
    'knounk': dict(textmacros=[], mathmacros=[], mathenvs=[], argmodes=[]),
    'default': dict(textmacros=DOC_TEXT_MACROS, mathmacros=DOC_MATH_MACROS, mathenvs=DOC_MATH_ENVS, argmodes=[]),
}


def modes_cfg(ctxname, st_kw=None):
    d = dict(MODES_LISTS[ctxname])
    st = pstate.make(ctx=ctxname, **(st_kw or {}))
    # the configured delimiter lists of the parsing state (documented defaults: $ \\( inline, $$ \\[ display)
    d['inline_open'] = [o for o, _c in st['inline']]
    d['pairs'] = [[o, c] for o, c in list(st['inline']) + list(st['display'])]
    d['top_math'] = bool(st['in_math'])
    d['top_delim'] = st['mdelim']
    return d


def modes_cfg_tla(ctxname, st_kw=None):
    d = modes_cfg(ctxname, st_kw)
    seq = lambda xs: '<<' + ', '.join(common.tla_seq(x) for x in xs) + '>>'
    return ('[textmacros |-> %s, mathmacros |-> %s, mathenvs |-> %s, argmodes |-> %s, inline_open |-> %s, pairs |-> %s, top_math |-> %s, top_delim |-> %s]'
            % (seq(d['textmacros']), seq(d['mathmacros']), seq(d['mathenvs']),
               '<<' + ', '.join('<<%s, %d, "%s">>' % (common.tla_seq(m), i, w) for m, i, w in d['argmodes']) + '>>', seq(d['inline_open']),
               '<<' + ', '.join(seq(p) for p in d['pairs']) + '>>',
               'TRUE' if d['top_math'] else 'FALSE', common.tla_seq(d['top_delim'])))


def modes_cfg_json(ctxname, st_kw=None):
    d = modes_cfg(ctxname, st_kw)
    return dict(textmacros=[common.codes(x) for x in d['textmacros']], mathmacros=[common.codes(x) for x in d['mathmacros']],
                mathenvs=[common.codes(x) for x in d['mathenvs']],
                argmodes=[[common.codes(m), i, w] for m, i, w in d['argmodes']], inline_open=[common.codes(x) for x in d['inline_open']],
                pairs=[[common.codes(a), common.codes(b)] for a, b in d['pairs']],
                top_math=d['top_math'], top_delim=common.codes(d['top_delim']))


def mc_text(atoms, ctxname, st_kw=None, K=5):
    st = pstate.make(ctx=ctxname, tol=False, **(st_kw or {}))
    only = contexts.names_in_atoms(ctxname, atoms, K) if ctxname == 'default' else None
    return MC % dict(atoms=pstate.atoms_tla(atoms), st0=pstate.tla_record(st), ctxdefs=contexts.tla_defs(ctxname, only=only),
                     modescfg=modes_cfg_tla(ctxname, st_kw))


def cfg_text(ctxname, K, shard, modes, invs, variants=None):
    v = dict(vmarker='intended', vverb='intended', vposnone='intended')
    v.update(variants or {})
    return CFG % dict(ctxconst=contexts.cfg_constants(ctxname).rstrip('\n'), K=K, shard=shard,
                      modes=', '.join('"%s"' % m for m in modes),
                      invs='\n'.join('INVARIANT ' + i for i in invs), **v)


SOUP = 100      # export_jobs(K=SOUP + n): random soups of n atoms (tlc -simulate over ParseSoup.tla) instead of all strings <= K
SOUP_VOLUME = dict(num=150, nseeds=8)


def kdesc(K):
    return 'K=%d' % K if K < SOUP else 'random soups of %d atoms' % (K - SOUP)


def export_jobs(atoms, ctxname, K, modes, invs, payload=None, timeout=3000, variants=None, st_kw=None, shards=None):
    if K >= SOUP:
        return soup_jobs(atoms, ctxname, K - SOUP, modes, invs, payload=payload, st_kw=st_kw, timeout=timeout,
                         num=SOUP_VOLUME['num'], nseeds=SOUP_VOLUME['nseeds'], seed=SOUP_VOLUME.get('seed', 1))
    mc = mc_text(atoms, ctxname, st_kw, K=K)
    jobs = []
    for sh in (shards if shards is not None else range(0, len(atoms) + 1)):
        pl = dict(payload or {})
        pl.update(ctx=ctxname, st_kw=st_kw or {})
        jobs.append(dict(payload=pl, main='MC_ParseRun', mc=mc,
                         cfg=cfg_text(ctxname, K, sh, modes, list(invs) + ['Emit'], variants),
                         tlc_kw=dict(timeout=timeout, xmx='3g')))
    return jobs


def soup_jobs(atoms, ctxname, maxatoms, modes, invs, payload=None, num=300, nseeds=8, seed=1, timeout=900, st_kw=None):
    """tlc -simulate over ParseSoup.tla: random strings of `maxatoms` atoms (one job per seed)."""
    mc = mc_text(atoms, ctxname, st_kw, K=maxatoms).replace('MODULE MC_ParseRun', 'MODULE MC_ParseSoup').replace(
        'EXTENDS ParseRun', 'EXTENDS ParseSoup')
    cfg = cfg_text(ctxname, 1, 0, modes, list(invs) + ['Emit']).replace('SPECIFICATION Spec', 'SPECIFICATION SoupSpec').replace(
        '  K = 1\n', '  K = 1\n  MaxAtoms = %d\n' % maxatoms)
    jobs = []
    for k in range(nseeds):
        pl = dict(payload or {})
        pl.update(ctx=ctxname, st_kw=st_kw or {})
        jobs.append(dict(payload=pl, main='MC_ParseSoup', mc=mc, cfg=cfg,
                         tlc_kw=dict(timeout=timeout, xmx='3g', simulate='num=%d' % num, depth=maxatoms + 2,
                                     seed=(seed * 7919 + k * 104729) % (2 ** 31))))
    return jobs


# the real parser -------------------------------------------------------------

def impl_parse(s, ctxname, mode, st_kw=None, full=False):
    """Parse with the real code.  Returns a dict in the shape of the model's result record, plus
    `exc` (exception class name) on failure and `tree_full` when full=True."""
    from pylatexenc.latexwalker import LatexWalker
    from pylatexenc.latexnodes import LatexWalkerParseError
    from pylatexenc.latexnodes.parsers import LatexGeneralNodesParser
    db = pstate.get_db(ctxname)

    def run():
        w = LatexWalker(s, latex_context=db, tolerant_parsing=(mode == 'tolerant'))
        ps = None
        if st_kw:
            ps = w.make_parsing_state(**{k: v for k, v in pstate.real_kwargs(pstate.make(ctx=ctxname, **st_kw)).items()
                                         if k not in ('latex_context',)})
        nl, _ = w.parse_content(LatexGeneralNodesParser(), parsing_state=ps)
        return w, nl
    st, val = guarded(run)
    if st == 'timeout':
        return dict(ok=False, exc='TIMEOUT', what='timeout', pos=-1)
    if st == 'exc':
        e = val
        if isinstance(e, LatexWalkerParseError):
            return dict(ok=False, exc=type(e).__name__, what=(e.error_type_info or {}).get('what'),
                        pos=(-1 if e.pos is None else e.pos), lineno=e.lineno, colno=e.colno,
                        parse_error=True)
        return dict(ok=False, exc=type(e).__name__, what='raised ' + type(e).__name__, pos=-2, parse_error=False,
                    msg=str(e)[:200])
    w, nl = val
    out = dict(ok=True, v=proj.V(nl), pos=None)
    if full:
        out['walker'] = w
        out['nodelist'] = nl
    return out


def norm_model(res):
    """model result record (JSON) -> comparable dict"""
    if res['ok']:
        return dict(ok=True, v=res['v'])
    return dict(ok=False, pos=res['pos'], what=res['what'])


def same_result(m, i):
    if m['ok'] != i['ok']:
        return False
    if m['ok']:
        return m['v'] == i['v']
    return i.get('parse_error', False) and m['pos'] == i['pos']

# -*- coding: utf-8 -*-
"""C18 -- node-list splitting and key-value parsing are order-preserving partitions.

spec/NodeSplit.tla transcribes the scan machines of split_at_chars(), split_at_node()
and parse_keyval_content(); spec/NodeSplitRun.tla runs them on every abstract list up to
the bound (character items with separators in every position, opaque child constructs
and comments containing separators, None placeholders) x separator kinds x max_split x
keep_empty x skip_none, and TLC checks the clauses the property states.  Binding S->C,
exact (verdict rule 2): each abstract list is rendered to LaTeX, parsed by the real
parser, and split with string / regular-expression / callable separators (and node
predicates); parts, node texts, node positions and part end positions must equal the
model's.
"""
from __future__ import annotations

import re

from . import common
from .common import Consumer, uncodes, codes, tla_seq, guarded

LEVEL = 'model_checking'

WORDS = ['a', ',', '=', 'a,', ',a', ',,', 'a=', '=a', ',=', '=,', 'aa', ',a,', 'a,,', 'a=a', ',=a', 'a,a']
SEPS = [('str', ','), ('str', ',,'), ('class', ',='), ('str', '='), ('notafter', ',', ','), ('bosalt', ',', '=')]
MAXSPLITS = [99, 0, 1, 2]
OPAQUE, COMMENT = '{,=}', '%,=\n'

MC = """---- MODULE MC_NodeSplitRun ----
EXTENDS NodeSplitRun
WordsDef == {%(words)s}
SepsDef == {%(seps)s}
FirstDef == {%(first)s}
====
"""
CFG = """CONSTANTS
  Words <- WordsDef
  MaxItems = %(maxitems)d
  Seps <- SepsDef
  MaxSplits = {%(maxsplits)s}
  Op = "%(op)s"
  FirstItems <- FirstDef
  Policies = {"last"}
  VKeyVal = "intended"
SPECIFICATION Spec
INVARIANT JoinReproducesSource
INVARIANT PositionsCorrect
INVARIANT KeepEmptyOnlyDropsEmpty
INVARIANT AtMostMaxSplits
INVARIANT NodePartition
INVARIANT Emit
CHECK_DEADLOCK FALSE
"""


def sep_tla(s):
    if s[0] == 'str':
        return '[t |-> "str", lit |-> %s]' % tla_seq(s[1])
    if s[0] == 'notafter':
        return '[t |-> "notafter", lit |-> %s, c |-> %d]' % (tla_seq(s[1]), ord(s[2]))
    if s[0] == 'bosalt':
        return '[t |-> "bosalt", lit |-> %s, alt |-> %d]' % (tla_seq(s[1]), ord(s[2]))
    return '[t |-> "class", set |-> {%s}]' % ', '.join(str(ord(c)) for c in s[1])


def templ_tla(t):
    if t in ('opaque', 'comment', 'none'):
        return '[k |-> "%s", txt |-> <<>>]' % t
    return '[k |-> "chars", txt |-> %s]' % tla_seq(t)


NODE_PREDS = [('class', ['comment']), ('class', ['opaque']), ('class', ['comment', 'opaque']), ('class', ['chars'])]


def jobs(op, maxitems, words):
    out = []
    firsts = list(words) + ['opaque', 'comment', 'none']
    if op == 'chars':
        seps = ', '.join(sep_tla(s) for s in SEPS)
    else:
        seps = ', '.join('[t |-> "class", set |-> {%s}]' % ', '.join('"%s"' % k for k in p[1]) for p in NODE_PREDS)
    for f in firsts:
        text = MC % dict(words=', '.join(tla_seq(w) for w in words), seps=seps, first=templ_tla(f))
        out.append(dict(payload=dict(op=op), main='MC_NodeSplitRun', mc=text,
                        cfg=CFG % dict(maxitems=maxitems, maxsplits=', '.join(map(str, MAXSPLITS)), op=op),
                        tlc_kw=dict(timeout=3000, xmx='2g')))
    return out


def build_real(items):
    """abstract items -> (walker, real LatexNodeList with Nones inserted, source)"""
    from pylatexenc.latexwalker import LatexWalker
    from pylatexenc.latexnodes.parsers import LatexGeneralNodesParser
    import pylatexenc.latexnodes.nodes as N
    src = ''.join(uncodes(it['txt']) if it['k'] == 'chars' else OPAQUE if it['k'] == 'opaque' else COMMENT if it['k'] == 'comment' else ''
                  for it in items)
    w = LatexWalker(src, tolerant_parsing=False)
    nl, _ = w.parse_content(LatexGeneralNodesParser())
    real = list(nl)
    kinds = [it['k'] for it in items if it['k'] != 'none']
    got = ['chars' if isinstance(n, N.LatexCharsNode) else 'opaque' if isinstance(n, N.LatexGroupNode)
           else 'comment' if isinstance(n, N.LatexCommentNode) else '?' for n in real]
    if got != kinds:
        raise common.MachineryError('parsed list %r does not have the written shape %r for %r' % (got, kinds, src))
    out = []
    k = 0
    for it in items:
        if it['k'] == 'none':
            out.append(None)
        else:
            out.append(real[k])
            k += 1
    lst = w.make_nodelist(out, parsing_state=nl.parsing_state)
    return w, lst, src


def proj(n, src):
    import pylatexenc.latexnodes.nodes as N
    if n is None:
        return dict(k='none', txt=[], pos=-1, end=-1)
    k = 'chars' if isinstance(n, N.LatexCharsNode) else 'opaque' if isinstance(n, N.LatexGroupNode) else 'comment'
    txt = n.chars if k == 'chars' else src[n.pos:n.pos_end]
    return dict(k=k, txt=codes(txt), pos=n.pos, end=n.pos_end)


def real_seps(sep):
    if sep['t'] == 'str':
        lit = uncodes(sep['lit'])
        return [('string', lit), ('regex', re.compile(re.escape(lit))),
                ('callable', lambda chars, pos, lit=lit: ((chars.find(lit, pos), chars.find(lit, pos) + len(lit)) if chars.find(lit, pos) != -1 else None))]
    if sep['t'] == 'notafter':
        rx = re.compile('(?<!%s)%s' % (re.escape(chr(sep['c'])), re.escape(uncodes(sep['lit']))))
    elif sep['t'] == 'bosalt':
        rx = re.compile('^%s|%s' % (re.escape(uncodes(sep['lit'])), re.escape(chr(sep['alt']))))
    else:
        cls = ''.join(chr(c) for c in sep['set'])
        rx = re.compile('[' + re.escape(cls) + ']')

    def fn(chars, pos):
        m = rx.search(chars, pos)
        return None if m is None else (m.start(), m.end())
    return [('regex', rx), ('callable', fn)]


class SplitConsumer(Consumer):
    def feed(self, rec):
        import pylatexenc.latexnodes.nodes as N
        self.n += 1
        st, val = guarded(build_real, rec['items'])
        if st != 'ok':
            if isinstance(val, common.MachineryError):
                raise val
            self.violation('outcome', dict(items=rec['items']), detail=dict(status=st, exc=repr(val)), sig=dict(clause='outcome'))
            return
        w, lst, src = val
        ms = None if rec['maxsplit'] == 99 else rec['maxsplit']
        case = dict(src=src, items=[(it['k'], uncodes(it['txt'])) for it in rec['items']], sep=rec['sep'], max_split=ms,
                    keep_empty=rec['keepempty'], skip_none=rec['skipnone'], op=self.payload['op'])
        if len(rec['res']) >= 2:
            self.nontrivial += 1
        self.sample(case, every=19997)
        if self.payload['op'] == 'chars':
            for kind, sp in real_seps(rec['sep']):
                st, parts = guarded(lst.split_at_chars, sp, max_split=ms, keep_empty=rec['keepempty'], skip_none=rec['skipnone'])
                self.counters['splits'] += 1
                if st != 'ok':
                    self.violation('outcome', dict(case, sepkind=kind), detail=dict(status=st, exc=repr(parts)),
                                   sig=dict(clause='outcome', exc=type(parts).__name__))
                    return
                got = [dict(nodes=[proj(n, src) for n in p.nodelist], pos_end=(-1 if p.pos_end is None else p.pos_end)) for p in parts]
                if got != rec['res']:
                    self.violation('parts-differ', dict(case, sepkind=kind), detail=dict(model=rec['res'], impl=got),
                                   sig=dict(clause='parts-differ', sepkind=kind, keep_empty=rec['keepempty'], max_split=ms))
                    return
        else:
            kinds = set(rec['sep']['set'])

            def pred(n):
                k = 'none' if n is None else 'chars' if isinstance(n, N.LatexCharsNode) else 'opaque' if isinstance(n, N.LatexGroupNode) else 'comment'
                return k in kinds
            st, parts = guarded(lst.split_at_node, pred, skip_none=rec['skipnone'], keep_separators=rec['keepempty'], max_split=ms)
            self.counters['splits'] += 1
            if st != 'ok':
                self.violation('outcome', case, detail=dict(status=st, exc=repr(parts)), sig=dict(clause='outcome', exc=type(parts).__name__))
                return
            got = [[proj(n, src) for n in p.nodelist] for p in parts]
            if got != rec['res']:
                self.violation('parts-differ', case, detail=dict(model=rec['res'], impl=got), sig=dict(clause='node-parts-differ'))
                return
        self.counters['same'] += 1


def run(ctx):
    from . import c18_keyval
    quick = ctx.tier == 'quick'
    ctx.rule = ('TLC runs the scan machines on every abstract list of <= MaxItems items (16 character words with separators in '
                'every position, opaque child, comment, None) x 4 separator kinds x max_split in {None,0,1,2} x keep_empty x '
                'skip_none; the real lists (parsed from the rendered source) are split with string, regex and callable '
                'separators and with node predicates; parts, texts and positions must equal the model\'s. Non-trivial: the '
                'split yields >= 2 parts.')
    words = WORDS[:10] if quick else WORDS
    m = common.run_shards(ctx, ('harness.c18', 'SplitConsumer'), jobs('chars', 3 if quick else 4, words if quick else WORDS[:9]),
                          what='NodeSplitRun split_at_chars')
    ctx.add_merged(m)
    ctx.log('split_at_chars: %d (list, separator, options) cases, %d real splits, %d identical' % (
        m['n'], m['counters'].get('splits', 0), m['counters'].get('same', 0)))
    m = common.run_shards(ctx, ('harness.c18', 'SplitConsumer'), jobs('node', 3, WORDS[:3]), what='NodeSplitRun split_at_node')
    ctx.add_merged(m)
    ctx.log('split_at_node: %d cases, %d identical' % (m['n'], m['counters'].get('same', 0)))
    c18_keyval.run(ctx)
    ctx.exhaustive = True


def replay(case):
    c = case['case']
    if 'kv' in c:
        from . import c18_keyval
        return c18_keyval.replay(case)
    print(c)
    return False

# -*- coding: utf-8 -*-
"""C06 -- tolerant mode: total, equals strict on valid input, keeps pre-error content.

spec/ParseRun.tla parses every string of <= K atoms with the reference parser in both
modes; TLC checks TolerantTotal, TolerantEqualsStrict and TolerantKeepsPrefix
(TreeProps!PrefixKept against the strict parse of the longest strictly parseable
prefix ending at or before the first error) and NoNonterm.  Binding: the real strict
and tolerant results must equal the model's.  Deviating and sampled executions are
judged by TLC acceptors on the implementation's own observations: outcome "tree"
(Outcome.tla, kind tolerant); tolerant tree = strict tree when strict succeeds
(TraceTree, same_tree); PrefixKept with the prefix tree obtained from the real strict
parser (TraceTree, prefix_kept).
"""
from __future__ import annotations

from . import common, parsecommon as pc, proj
from .common import Consumer, uncodes, codes
from .c05 import outcome_trace

LEVEL = 'model_checking'


def impl_prefix_tree(s, ctx, errpos):
    """Top-level nodes of the real strict parse of the longest strictly parseable prefix s[:c], c <= errpos."""
    e = max(0, min(len(s), errpos if errpos is not None and errpos >= 0 else 0))
    for c in range(e, 0, -1):
        r = pc.impl_parse(s[:c], ctx, 'strict')
        if r['ok']:
            return r['v']['ns']
    return []


CLOSERS = ['}', '$', '$$', '\\)', '\\]', ']', '\\end{e}', '\\end{q}', '\\end{itemize}', '\\end{equation}']


def completion_tree(s, ctx):
    """(closers, tree) for the shortest sequence of <= 3 closing delimiters that makes s strictly parseable
    (real strict parser), or None.  Only for inputs that do not end inside a comment or a control word."""
    import itertools
    if not s or s.rstrip(' ')[-1:].isalpha() and '\\' in s[-12:] or '%' in s.split('\n')[-1]:
        return None
    if s.endswith('\\'):
        return None                 # a closer would be glued to the escape character (\\ + ] = \\])
    for n in (1, 2, 3):
        for cl in itertools.product(CLOSERS, repeat=n):
            if s.endswith('$') and cl[0].startswith('$'):
                continue            # $ + $ would be read as one $$ token
            r = pc.impl_parse(s + ''.join(cl), ctx, 'strict')
            if r['ok']:
                if _closers_only_close(r['v']['ns'], len(s)):
                    return ''.join(cl), r['v']['ns']
                return None         # the added text did something else than closing open constructs: no claim
    return None


def _closers_only_close(ns, slen):
    """The appended closers must act as closing delimiters only: every node reaching beyond the original input is a
    group, formula or environment (not a macro call that took them as arguments, not a leaf containing them), and these
    nodes form one nested chain."""
    beyond = [n for n in ns if n['end'] > slen]
    if len(beyond) > 1:
        return False
    for n in beyond:
        if n['k'] not in ('group', 'math', 'env') or n['pos'] >= slen:
            return False
        kids = [x for a in n['args'] for x in a['ns']] + list(n['body'])
        if any(x['end'] > slen for a in n['args'] for x in a['ns']):
            return False            # an argument (not the body) swallowed a closer
        if not _closers_only_close(list(n['body']), slen):
            return False
    return True


class TolerantConsumer(Consumer):
    def __init__(self, payload):
        super().__init__(payload)
        self.out_traces = []
        self.tree_traces = []

    def keep(self, lst, case, tr, reason):
        if len(lst) < 5000:
            lst.append((case, tr, reason))
        elif reason == 'deviation':
            self.counters['deviations_not_kept'] += 1

    def feed(self, rec):
        self.n += 1
        s = uncodes(rec['s'])
        ctx = self.payload['ctx']
        case = dict(s=s, ctx=ctx)
        ms, mt = pc.norm_model(rec['res']['strict']), pc.norm_model(rec['res']['tolerant'])
        i_s = pc.impl_parse(s, ctx, 'strict')
        i_t = pc.impl_parse(s, ctx, 'tolerant')
        if not ms['ok']:
            self.nontrivial += 1
        self.sample(dict(case, strict=('tree' if ms['ok'] else 'error@%s' % ms.get('pos'))), every=4999)
        same = pc.same_result(ms, i_s) and pc.same_result(mt, i_t) and i_t['ok'] and \
            (not i_s['ok'] or i_s['v'] == i_t['v'])
        sampled = same and (self.n % self.payload.get('sample_every', 97) == 0)
        if same:
            self.counters['same:' + ('valid' if ms['ok'] else 'erroneous')] += 1
        else:
            self.counters['deviates'] += 1
        if same and not sampled:
            return
        reason = 'sample' if same else 'deviation'
        case2 = dict(case, impl_strict={k: v for k, v in i_s.items() if k in ('ok', 'exc', 'what', 'pos')},
                     impl_tolerant={k: v for k, v in i_t.items() if k in ('ok', 'exc', 'what', 'pos')})
        # (a) totality
        self.keep(self.out_traces, case2, outcome_trace(s, i_t, kind='tolerant'), reason)
        if not i_t['ok'] or i_t['v']['vk'] != 'list':
            if i_t['ok']:
                # result None: no tree
                self.out_traces[-1][1]['outcome'] = 'none'
            return
        if i_s['ok']:
            # (b) equals strict
            self.keep(self.tree_traces, case2, dict(kind='same_tree', s=codes(s), ns=i_t['v']['ns'], other=i_s['v']['ns']), reason)
        elif i_s.get('parse_error'):
            # (c) keeps the prefix
            tn = impl_prefix_tree(s, ctx, i_s.get('pos'))
            self.keep(self.tree_traces, case2, dict(kind='prefix_kept', s=codes(s), ns=i_t['v']['ns'], tn=tn), reason)
            # (c'), input that only lacks its closing delimiters: everything precedes the error (the end of input), so every
            # leaf of the strict parse of the completed document must be among the nodes tolerant mode returns
            comp = completion_tree(s, ctx) if self.payload.get('completion', True) else None
            if comp is not None:
                self.counters['completions'] += 1
                self.keep(self.tree_traces, dict(case2, completed_with=comp[0]),
                          dict(kind='completion_kept', s=codes(s), ns=i_t['v']['ns'], cn=comp[1], slen=len(s)), reason)

    def result(self):
        r = super().result()
        r['extra'] = dict(out=self.out_traces, tree=self.tree_traces)
        return r


def validate(ctx, merged):
    dropped = merged['counters'].get('deviations_not_kept')
    for key, module in (('out', 'Outcome'), ('tree', 'TraceTree')):
        items = []
        for ex in merged['extra']:
            items.extend(ex.get(key, []))
        if not items:
            continue
        flags, diags = common.validate_traces(ctx, module, [it[1] for it in items], what='C->S %s acceptor' % module)
        ctx.traces_validated += len(items)
        ctx.counters['validated_by_%s' % module] += len(items)
        ctx.counters['accepted_by_%s' % module] += sum(flags)
        for idx, (case, tr, reason) in enumerate(items):
            if flags[idx]:
                if reason == 'deviation':
                    ctx.drift_count += 1
                    if len(ctx.drift) < 10:
                        ctx.drift.append(dict(case=case))
                continue
            d = diags.get(idx, {})
            ctx.violation('acceptor-rejects', case, detail=dict(d, kind=tr['kind'], outcome=tr.get('outcome'), exc=tr.get('exc')),
                          sig=dict(clause='acceptor-rejects', kind=tr['kind'], outcome=tr.get('outcome'), exc=tr.get('exc'),
                                   failed=','.join(d.get('failed_clauses', [])) or '?'))
    # deviations beyond the cap were not judged: if none of the judged ones was rejected the run cannot conclude
    if dropped and not ctx.violations:
        raise common.MachineryError('too many deviating executions to validate (%d dropped)' % dropped)


def run(ctx):
    quick = ctx.tier == 'quick'
    ctx.rule = ('TLC parses every string of <= K atoms in strict and tolerant mode with the reference parser and checks '
                'totality, equality on valid input and PrefixKept; the real parser must produce the same results in both '
                'modes; deviating and sampled executions are judged by the TLC acceptors on the implementation\'s own '
                'results. Non-trivial: strict mode rejects the string.')
    plans = [('k', pc.K_ATOMS, 3), ('default', pc.D_ATOMS, 3)] if quick else \
            [('k', pc.K_ATOMS, 3), ('default', pc.D_ATOMS, 3), ('k', pc.K_ATOMS, 4), ('default', pc.D_ATOMS, 4)]
    invs = ['TolerantTotal', 'TolerantEqualsStrict', 'TolerantKeepsPrefix', 'NoNonterm']
    pc.SOUP_VOLUME.update(num=150 if quick else 1500, nseeds=8 if quick else 16, seed=ctx.seed)
    plans += [('k', pc.K_ATOMS, pc.SOUP + (9 if quick else 14)), ('default', pc.D_ATOMS, pc.SOUP + (9 if quick else 14))]
    for cname, atoms, K in plans:
        # the completion oracle (closing delimiters appended) has been validated on every string of <= 3 atoms; longer
        # strings and the random soups are judged by the other clauses only
        jobs = pc.export_jobs(atoms, cname, K, ['strict', 'tolerant'], invs,
                              payload=dict(sample_every=97 if quick else 997, completion=(K <= 3)), timeout=6000)
        m = common.run_shards(ctx, ('harness.c06', 'TolerantConsumer'), jobs, what='ParseRun both modes %s %s' % (cname, pc.kdesc(K)))
        ctx.add_merged(m)
        ctx.log('%s %s: %d strings; %s' % (cname, pc.kdesc(K), m['n'], {k: v for k, v in m['counters'].items() if 'same' in k or 'dev' in k}))
        validate(ctx, m)
    # control: the pinned zero-width placeholder makes the tolerant reference parser loop ("nonterm")
    mc = pc.mc_text(['a', '\\'], 'default')
    r = common.run_tlc('MC_ParseRun', pc.cfg_text('default', 2, 2, ['tolerant'], ['NoNonterm', 'TolerantTotal']).replace(
        'VTok = "intended"', 'VTok = "as_implemented"'), mc_text=mc, workers=2, timeout=600)
    ctx.add_tlc(r, 'control: zero-width placeholder for a trailing backslash')
    ctx.control('zero-width trailing-escape placeholder makes tolerant parsing non-terminating',
                r.violated in ('NoNonterm', 'TolerantTotal'), str(r.violated) + ' ' + str(r.error))
    ctx.exhaustive = True


def replay(case):
    c = case['case']
    s, cx = c['s'], c['ctx']
    i_s = pc.impl_parse(s, cx, 'strict')
    i_t = pc.impl_parse(s, cx, 'tolerant')
    print('input', repr(s), 'strict:', {k: v for k, v in i_s.items() if k != 'v'}, 'tolerant ok:', i_t['ok'], i_t.get('exc'))
    ctx = common.Ctx('C06', 'quick', 0)
    f, d = common.validate_traces(ctx, 'Outcome', [outcome_trace(s, i_t, kind='tolerant')])
    if not f[0] or not i_t['ok'] or i_t['v']['vk'] != 'list':
        print('acceptor Outcome rejects', d.get(0))
        return False
    if i_s['ok']:
        tr = dict(kind='same_tree', s=codes(s), ns=i_t['v']['ns'], other=i_s['v']['ns'])
    else:
        tr = dict(kind='prefix_kept', s=codes(s), ns=i_t['v']['ns'], tn=impl_prefix_tree(s, cx, i_s.get('pos')))
    f, d = common.validate_traces(ctx, 'TraceTree', [tr])
    print('acceptor TraceTree:', 'accepts' if f[0] else 'rejects %r' % d.get(0))
    return f[0]

# -*- coding: utf-8 -*-
"""(D) extraction of the latex2text database into the constants of L2T.tla."""
from __future__ import annotations

import re
import unicodedata

from .common import tla_seq

_textdb = [None]


def textdb():
    if _textdb[0] is None:
        from pylatexenc.latex2text import get_default_latex_context_db
        _textdb[0] = get_default_latex_context_db()
    return _textdb[0]


def accents():
    from pylatexenc.latex2text import _defaultspecs
    return dict(_defaultspecs.unicode_accents_list)


def parse_fmt(f):
    """printf-style replacement -> list of ('lit', text) / ('arg', index); None if not representable"""
    segs = []
    pos = 0
    nexts = 1
    for m in re.finditer(r'%(?:\((\d+)\))?s|%%', f):
        if m.start() > pos:
            segs.append(('lit', f[pos:m.start()]))
        if m.group(0) == '%%':
            segs.append(('lit', '%'))
        elif m.group(1):
            segs.append(('arg', int(m.group(1))))
        else:
            segs.append(('arg', nexts))
            nexts += 1
        pos = m.end()
    if pos < len(f):
        segs.append(('lit', f[pos:]))
    if '%' in ''.join(t for k, t in segs if k == 'lit' and t != '%'):
        return None
    return segs


def macro_text(name):
    """-> dict(t=...) or None (not representable in the model: keep the name out of the alphabet)"""
    from pylatexenc.latex2text import fmt_equation_environment
    sp = textdb().get_macro_spec(name)
    if sp is None:
        return None
    acc = accents()
    r = sp.simplify_repl
    if name in acc and callable(r):
        return dict(t='accent', comb=ord(acc[name]))
    if name == 'item' and callable(r):
        return dict(t='item')
    if callable(r):
        return 'unmodelled'
    if r:
        if '%' in r and len(r) != 1:
            segs = parse_fmt(r)
            if segs is None:
                return 'unmodelled'
            return dict(t='fmt', segs=segs)
        return dict(t='const', txt=r)
    if sp.discard:
        return dict(t='discard')
    return dict(t='transparent')


def env_text(name):
    from pylatexenc.latex2text import fmt_equation_environment
    sp = textdb().get_environment_spec(name)
    if sp is None:
        return None
    r = sp.simplify_repl
    if r is fmt_equation_environment:
        return dict(t='equation')
    if callable(r):
        return 'unmodelled'
    if r:
        m = re.fullmatch(r'([^%]*)%s([^%]*)', r)
        if not m:
            return 'unmodelled'
        return dict(t='wrap', pre=m.group(1), post=m.group(2))
    if sp.discard:
        return dict(t='discard')
    return dict(t='body')


def specials_text(chars):
    sp = textdb().get_specials_spec(chars)
    if sp is None:
        return None
    r = sp.simplify_repl
    if callable(r) or (r and '%' in r and len(r) != 1):
        return 'unmodelled'
    return r or ''


def _fun(pairs, empty):
    if not pairs:
        return empty
    return ' @@ '.join('(%s :> %s)' % (k, v) for k, v in pairs)


def tla_defs(macros, envs, specials, bases):
    """TLA+ definitions MacroTextDef, EnvTextDef, SpecialsTextDef, NfcTabDef for the given names."""
    mt, et, st = [], [], []
    combs = set()
    for m in sorted(macros):
        d = macro_text(m)
        if d is None:
            continue
        if d == 'unmodelled':
            raise ValueError('macro %r has a replacement the model does not represent' % m)
        if d['t'] == 'const':
            v = '[t |-> "const", txt |-> %s]' % tla_seq(d['txt'])
        elif d['t'] == 'fmt':
            v = '[t |-> "fmt", segs |-> <<%s>>]' % ', '.join(
                ('[lit |-> %s]' % tla_seq(x)) if k == 'lit' else ('[arg |-> %d]' % x) for k, x in d['segs'])
        elif d['t'] == 'accent':
            v = '[t |-> "accent", comb |-> %d]' % d['comb']
            combs.add(d['comb'])
        else:
            v = '[t |-> "%s"]' % d['t']
        mt.append((tla_seq(m), v))
    for e in sorted(envs):
        d = env_text(e)
        if d is None:
            continue
        if d == 'unmodelled':
            raise ValueError('environment %r has a replacement the model does not represent' % e)
        if d['t'] == 'wrap':
            v = '[t |-> "wrap", pre |-> %s, post |-> %s]' % (tla_seq(d['pre']), tla_seq(d['post']))
        else:
            v = '[t |-> "%s"]' % d['t']
        et.append((tla_seq(e), v))
    for s in sorted(specials):
        d = specials_text(s)
        if d is None:
            continue
        if d == 'unmodelled':
            raise ValueError('specials %r not representable' % s)
        st.append((tla_seq(s), tla_seq(d) if d else '<<>>'))
    nfc = []
    allbases = set(bases) | combs
    for m in macros:
        d = macro_text(m)
        if isinstance(d, dict) and d.get('t') == 'const':
            allbases |= set(ord(ch) for ch in d['txt'])
    for b in sorted(allbases):
        for c in sorted(combs):
            x = unicodedata.normalize('NFC', chr(b) + chr(c))
            if x != chr(b) + chr(c):
                nfc.append('<<%d, %d, %s>>' % (b, c, tla_seq(x)))
    return ('MacroTextDef == %s\nEnvTextDef == %s\nSpecialsTextDef == %s\nNfcTabDef == << %s >>\n' % (
        _fun(mt, '[x \\in {} |-> [t |-> "discard"]]'), _fun(et, '[x \\in {} |-> [t |-> "body"]]'),
        _fun(st, '[x \\in {} |-> <<>>]'), ', '.join(nfc)))

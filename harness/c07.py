# -*- coding: utf-8 -*-
"""C07 -- latex2text is total: a string for every input and option set.

Tier A: spec/Outcome.tla, kind "text": the outcome of latex_to_text must be a string
(no exception, no watchdog expiry).  Sources of inputs, all from specifications:
(1) every string of <= K atoms (ParseRun export, tolerant mode), where the core
    sublanguage additionally has the exact oracle of C03;
(2) (D) every macro, environment and specials of the default walker database and of
    the default text database, instantiated into every well-formed use shape that
    spec/CallShapes.tla enumerates for its argument signature (mandatory slots as empty
    group / group / single token, optional slots absent / empty / filled, star, empty
    and tabular environment bodies) in every context (top level, inside \\textbf{..},
    inside math, unbraced where \\emph, \\frac, \\sqrt or an accent expects an argument);
(3) name soups drawn from both databases (tlc -simulate style random walks are
    replaced by a seeded generator; only totality is predicted).
Each input is parsed once (default tolerant parsing) and rendered under every
combination of math_mode x strict_latex_spaces x keep_comments x keep_braced_groups x
fill_text (128 option sets).  Every non-string outcome and a sample of all outcomes is
judged by TLC.
"""
from __future__ import annotations

import itertools
import random

from . import common, contexts, parsecommon as pc
from .common import Consumer, uncodes, codes, guarded

LEVEL = 'model_checking'

OPTIONSETS = [dict(math_mode=mm, strict_latex_spaces=sp, keep_comments=kc, keep_braced_groups=kb, fill_text=ft)
              for mm in ('text', 'with-delimiters', 'verbatim', 'remove')
              for sp in ('macros', 'based-on-source', 'except-in-equations', True)
              for kc in (False, True) for kb in (False, True) for ft in (None, 20)]
_convs = []


def convs():
    from pylatexenc.latex2text import LatexNodes2Text
    if not _convs:
        for o in OPTIONSETS:
            _convs.append(LatexNodes2Text(**o))
    return _convs


def totality(s):
    """Parse once (tolerant, as latex_to_text does), render under all option sets.
    Returns ('text', None) or (outcome, detail)."""
    from pylatexenc.latexwalker import LatexWalker
    from pylatexenc.latexnodes.parsers import LatexGeneralNodesParser

    def parse():
        lw = LatexWalker(s)
        nl, _ = lw.parse_content(LatexGeneralNodesParser())
        return nl
    st, nl = guarded(parse)
    if st != 'ok':
        return ('timeout' if st == 'timeout' else 'exception', dict(stage='parse', exc=repr(nl), exc_type=type(nl).__name__))
    for k, cv in enumerate(convs()):
        st, val = guarded(cv.nodelist_to_text, nl)
        if st != 'ok':
            return ('timeout' if st == 'timeout' else 'exception',
                    dict(stage='render', options=OPTIONSETS[k], exc=repr(val), exc_type=type(val).__name__))
        if not isinstance(val, str):
            return ('none', dict(stage='render', options=OPTIONSETS[k], value=repr(val)))
    # and once through the public entry point itself
    st, val = guarded(convs()[0].latex_to_text, s)
    if st != 'ok' or not isinstance(val, str):
        return ('exception' if st == 'exc' else st, dict(stage='latex_to_text', exc=repr(val), exc_type=type(val).__name__))
    return ('text', None)


def trace_of(s, outcome, detail):
    return dict(kind='text', s=codes(s), outcome=outcome, pos=-1, lineno=-1, colno=-1,
                exc=(detail or {}).get('exc_type'))


class TotalConsumer(Consumer):
    """ParseRun export as the generator of strings."""

    def __init__(self, payload):
        super().__init__(payload)
        self.traces = []

    def feed(self, rec):
        self.n += 1
        s = uncodes(rec['s'])
        outcome, detail = totality(s)
        self.counters['renders'] += len(OPTIONSETS)
        if '\\' in s:
            self.nontrivial += 1
        self.sample(dict(s=s), every=9973)
        if outcome != 'text' or self.n % self.payload.get('sample_every', 50) == 0:
            self.traces.append((dict(s=s, detail=detail), trace_of(s, outcome, detail)))

    def result(self):
        r = super().result()
        r['extra'] = dict(traces=self.traces)
        return r


def _shape_worker(batch):
    out = []
    for s, tag in batch:
        outcome, detail = totality(s)
        out.append((s, tag, outcome, detail))
    return out


# ---- (D) shapes --------------------------------------------------------------------

def fill_text(kind, choice, a, b):
    if kind == 'm':
        return {'{}': '{}', '{x}': '{x}', '{Xy1}': '{Xy1}', 'tok': ' x'}[choice]
    if kind == 'o':
        return {'absent': '', '[]': '[]', '[x]': '[x]'}[choice]
    if kind == 's':
        return {'absent': '', '*': '*'}[choice]
    if kind == 't':
        return '' if choice == 'absent' else chr(a)
    if kind in ('r', 'd'):
        return {'absent': '', '<>': chr(a) + chr(b), '<x>': chr(a) + 'x' + chr(b)}[choice]
    if kind == 'v':
        return {'{}': '{}', '|x|': '|x|'}[choice]
    if kind == 'verb':
        return choice
    raise KeyError(kind)


def in_context(call, barename, ctxname):
    if ctxname == 'top':
        return 'a ' + call + ' b'
    if ctxname == 'in-textbf':
        return '\\textbf{' + call + '}'
    if ctxname == 'in-math':
        return '$' + call + '$ \\[' + call + '\\]'
    if ctxname == 'arg-of-emph':
        return '\\emph' + barename + ' y'
    if ctxname == 'arg-of-frac':
        return '\\frac' + barename + barename
    if ctxname == 'arg-of-sqrt':
        return '\\sqrt' + barename
    if ctxname == 'arg-of-accent':
        return "\\'" + barename
    if ctxname == 'in-item':
        return '\\begin{itemize}\\item ' + call + '\\end{itemize}'
    raise KeyError(ctxname)


def signatures():
    """signature (tuple of kinds) -> list of (kind 'macro'|'env'|'specials', name, sig records)"""
    from . import l2tspec
    d = contexts.describe('default')
    groups = {}
    for name, sig in d['macros'].items():
        groups.setdefault((tuple(a['k'] for a in sig), False), []).append(('macro', name, sig))
    for name, e in d['envs'].items():
        sig = e['args'] if e['body'] != 'legacyverb' else []
        groups.setdefault((tuple(a['k'] for a in sig), True), []).append(('env', name, sig))
    tdb = l2tspec.textdb()
    for sp in tdb.iter_macro_specs():
        if sp.macroname not in d['macros']:
            groups.setdefault(((), False), []).append(('macro', sp.macroname, []))
    for sp in tdb.iter_environment_specs():
        if sp.environmentname not in d['envs']:
            groups.setdefault(((), True), []).append(('env', sp.environmentname, []))
    return groups


SHAPE_CFG = 'CONSTANTS\n  Sig <- SigDef\n  IsEnv = %s\nSPECIFICATION Spec\nINVARIANT Emit\nCHECK_DEADLOCK FALSE\n'
SHAPE_MC = '---- MODULE MC_CallShapes ----\nEXTENDS CallShapes\nSigDef == <<%s>>\n====\n'


def shapes_for(ctx, kinds, isenv):
    recs = []
    r = common.run_tlc('MC_CallShapes', SHAPE_CFG % ('TRUE' if isenv else 'FALSE'),
                       mc_text=SHAPE_MC % ', '.join('"%s"' % k for k in kinds), workers=1, timeout=600,
                       on_record=recs.append)
    ctx.add_tlc(r, 'CallShapes: use shapes per signature')
    common.tlc_must_pass(r, 'CallShapes')
    return recs


PAIR_CFG = 'CONSTANTS\n  Seps = {%s}\n  Ctxs = {%s}\nSPECIFICATION Spec\nINVARIANT Emit\nCHECK_DEADLOCK FALSE\n'


def shape_text(sig, how):
    out = []
    for a in sig:
        k = a['k']
        if k == 'm':
            out.append('{}' if how == 'empty' else '{x}')
        elif k == 'o':
            out.append('[]' if how == 'empty' else '[x]')
        elif k == 's':
            out.append('' if how == 'empty' else '*')
        elif k in ('r', 'd'):
            out.append(chr(a['a']) + ('' if how == 'empty' else 'x') + chr(a['b']))
        elif k == 'v':
            out.append('{}' if how == 'empty' else '|x|')
        elif k == 't':
            out.append('' if how == 'empty' else chr(a['a']))
    return ''.join(out)


def pair_documents(ctx, quick):
    from . import l2tspec
    d = contexts.describe('default')
    tdb = l2tspec.textdb()
    names = [('macro', sp.macroname) for sp in tdb.iter_macro_specs() if callable(sp.simplify_repl)] + \
            [('env', sp.environmentname) for sp in tdb.iter_environment_specs() if callable(sp.simplify_repl)]
    SEP = {'none': '', 'space': ' ', 'par': '\n\n', 'comment': '%c\n'}
    seps = ['none', 'par'] if quick else ['none', 'space', 'par', 'comment']
    ctxs = ['top'] if quick else ['top', 'in-group', 'in-math']
    recs = []
    r = common.run_tlc('CallPairs', PAIR_CFG % (', '.join('"%s"' % s for s in seps), ', '.join('"%s"' % c for c in ctxs)),
                       workers=1, timeout=600, on_record=recs.append)
    ctx.add_tlc(r, 'CallPairs: shapes of two calls in one document')
    common.tlc_must_pass(r, 'CallPairs')

    def call(kind, name, how):
        if kind == 'macro':
            sig = d['macros'].get(name, [])
            return '\\' + name + shape_text(sig, how) + ('' if sig or not name[-1:].isalpha() else '{}')
        e = d['envs'].get(name, dict(args=[], body='nodes'))
        sig = e['args'] if e['body'] != 'legacyverb' else []
        return '\\begin{%s}%s%s\\end{%s}' % (name, shape_text(sig, how), '' if how == 'empty' else 'x', name)
    work = []
    for (ka, na) in names:
        for (kb, nb) in names:
            for sh in recs:
                doc = call(ka, na, sh['fa']) + SEP[sh['sep']] + call(kb, nb, sh['fb'])
                if sh['ctx'] == 'in-group':
                    doc = '{' + doc + '}'
                elif sh['ctx'] == 'in-math':
                    doc = '$' + doc + '$'
                work.append((doc, 'pair:%s,%s' % (na, nb)))
    ctx.counters['pair_documents'] = len(work)
    ctx.log('pairs: %d names with a function replacement, %d shapes, %d documents' % (len(names), len(recs), len(work)))
    return work


def run(ctx):
    quick = ctx.tier == 'quick'
    ctx.rule = ('(1) every string of <= K atoms over the context alphabets (tolerant parse, 128 option sets each); (2) every '
                'name of the default walker and text databases in every use shape TLC enumerates for its signature x 8 '
                'contexts; (3) seeded name soups. Non-trivial: the input contains a macro or environment.')
    # (1) strings
    plans = [('default', pc.D_ATOMS + ['\\begin{pmatrix}', '\\end{pmatrix}', '&', '\\alpha', "\\'"], 2 if quick else 3),
             ('default', ['a', ' ', '\n', '\\', '{', '}', '$', '%', '~', '\\textbf', '\\begin{e}', '\\end{e}', '\\(', '\\]', '['],
              3 if quick else 4)]
    items = []
    for cname, atoms, K in plans:
        jobs = pc.export_jobs(atoms, cname, K, ['tolerant'], ['NoNonterm'], payload=dict(sample_every=20 if quick else 200),
                              timeout=6000)
        m = common.run_shards(ctx, ('harness.c07', 'TotalConsumer'), jobs, what='ParseRun tolerant %s K=%d (strings for totality)' % (cname, K))
        ctx.add_merged(m)
        for ex in m['extra']:
            items.extend(ex.get('traces', []))
        ctx.log('strings %d atoms K=%d: %d strings x %d option sets' % (len(atoms), K, m['n'], len(OPTIONSETS)))
    # (2) shapes
    groups = signatures()
    work = []
    nshapes = 0
    for (kinds, isenv), members in sorted(groups.items(), key=lambda kv: (len(kv[0][0]), str(kv[0]))):
        if len(kinds) > 5:
            shapes = shapes_for(ctx, kinds[:5], isenv)
            pad = True
        else:
            shapes = shapes_for(ctx, kinds, isenv)
            pad = False
        nshapes += len(shapes)
        if quick:
            members = members[::4] if len(members) > 12 else members
        for kind, name, sig in members:
            for sh in (shapes if not quick or len(shapes) <= 200 else shapes[::5]):
                args = ''.join(fill_text(a['k'], sh['fill'][i], a['a'], a['b']) for i, a in enumerate(sig[:len(sh['fill'])]))
                if pad:
                    args += ''.join('{x}' if a['k'] == 'm' else '' for a in sig[5:])
                if kind == 'macro':
                    bare = '\\' + name
                    call = bare + args
                elif kind == 'env':
                    bare = '\\begin{' + name + '}'
                    call = bare + args + sh['body'] + '\\end{' + name + '}'
                work.append((in_context(call, bare, sh['ctx']), '%s:%s' % (kind, name)))
    from . import l2tspec
    for sp in list(pc.pstate.specials_of('default')) + [s.specials_chars for s in l2tspec.textdb().iter_specials_specs()]:
        for c in ('top', 'in-textbf', 'in-math', 'arg-of-emph'):
            work.append((in_context(sp, sp, c), 'specials:' + repr(sp)))
    # (2b) ordered pairs of names whose text replacement is a function (state carried from one call to a later one)
    work += pair_documents(ctx, quick)
    npairs = len(work)
    # (3) name soups
    rnd = random.Random(ctx.seed)
    d = contexts.describe('default')
    pool = (['\\' + m for m in sorted(d['macros'])] + ['\\begin{%s}' % e for e in sorted(d['envs'])] +
            ['\\end{%s}' % e for e in sorted(d['envs'])] + ['{', '}', '[', ']', '$', '$$', '&', '%', ' ', '\n\n', 'x', '\\\\', '~', '*'] +
            ['\\' + sp.macroname for sp in l2tspec.textdb().iter_macro_specs()][::7])
    for _ in range(2000 if quick else 40000):
        work.append((''.join(rnd.choice(pool) for _ in range(rnd.randint(2, 9))), 'soup'))
    batches = [work[i:i + 400] for i in range(0, len(work), 400)]
    res = common.pool_map(_shape_worker, batches)
    n = 0
    for b in res:
        for s, tag, outcome, detail in b:
            n += 1
            if outcome != 'text' or n % (20 if quick else 100) == 0:
                items.append((dict(s=s, source=tag, detail=detail), trace_of(s, outcome, detail)))
    ctx.evaluations += n
    ctx.nontrivial += n
    ctx.counters['shape_and_soup_inputs'] = n
    ctx.counters['renders'] += n * len(OPTIONSETS)
    ctx.log('database shapes and soups: %d inputs (%d signature groups, %d use shapes) x %d option sets' % (
        n, len(groups), nshapes, len(OPTIONSETS)))
    # verdicts by the TLC acceptor
    flags, diags = common.validate_traces(ctx, 'Outcome', [it[1] for it in items], what='C->S Outcome acceptor (kind text)')
    ctx.traces_validated += len(items)
    for idx, (case, tr) in enumerate(items):
        if not flags[idx]:
            det = case.get('detail') or {}
            ctx.violation('not-total', dict(s=case['s'], source=case.get('source')), detail=det,
                          sig=dict(clause='not-total', outcome=tr['outcome'], exc=tr.get('exc'), stage=det.get('stage')))
    ctx.samples += [dict(s=w[0], source=w[1]) for w in work[:3]]
    ctx.exhaustive = False
    ctx.assumptions += ['only totality is predicted for constructs outside the core sublanguage of C03',
                        'bounded time = 5 s of CPU per call (inputs < 200 characters)']


def replay(case):
    c = case['case']
    outcome, detail = totality(c['s'])
    print(repr(c['s']), '->', outcome, detail)
    return outcome == 'text'

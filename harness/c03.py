# -*- coding: utf-8 -*-
"""C03 -- latex2text renders the core sublanguage by its documented rules, compositionally.

Tier A = spec/L2T.tla (the documented rules, on the node records of the reference
parser), instantiated with tables extracted from the text database ((D): symbol,
format, accent, specials, environment entries).  spec/L2TRun.tla renders every strictly
parseable string of <= K atoms under each strict_latex_spaces policy x keep_comments x
keep_braced_groups x math_mode; TLC also checks the compositionality consequence on
pairs of self-contained blocks.  Binding S->C, exact (verdict rule 2):
latex_to_text(src, tolerant_parsing=False) must equal the model's text for every
combination, and the join equalities must hold on the implementation too.
"""
from __future__ import annotations

from . import common, contexts, pstate, l2tspec
from .common import Consumer, uncodes, tla_seq, guarded

LEVEL = 'model_checking'

ATOMS = ['a', ' ', '\n', '{', '}', '$', '%', '~', '-', '\\[', '\\]', '\\alpha', '\\textbf', '\\frac', "\\'", 'e',
         '\\emph', '\\sqrt', '[', ']', '\\item', '\\begin{itemize}', '\\end{itemize}', '\\begin{foo}', '\\end{foo}',
         '\\begin{equation}', '\\end{equation}', '&', '`', '\\i', '\\\\', '\\(', '\\)', "'", '\\text', '\\c', 'c',
         '\\alpha ', '%c\n', '\\alpha\t', '$\\textbf{$a$}$']      # compound atoms: reach macro + blank + comment + text within K = 3
BLOCKS = ['a', '{a}', '\\textbf{b}', '$x$', 'a~b', '\\frac{a}{b}', '\\[x\\]', '\\begin{itemize}\\item a\\end{itemize}',
          'a--b', "\\'e", '\\emph{a $y$}', '{\\alpha}', '\\begin{equation}x\\end{equation}', 'a%c\nb',
          '$x \\textbf{if $y$} z$', '{a} {b} \\alpha c']
POLS = ['macros', 'based-on-source', 'except-in-equations', 'true', 'dict-mc', 'dict-lc-ac-eq']
POLVAL = {'macros': 'macros', 'based-on-source': 'based-on-source', 'except-in-equations': 'except-in-equations', 'true': True,
          # dictionary-valued policies (documented form); unspecified keys are False / None
          'dict-mc': {'between-macro-and-chars': True, 'between-latex-constructs': False},
          'dict-lc-ac-eq': {'between-latex-constructs': True, 'after-comment': True, 'in-equations': 'macros'}}
PRESET_POLS = ['macros', 'based-on-source', 'except-in-equations', 'true']
OPTS = [dict(keep_comments=kc, keep_braced_groups=kb, math_mode=mm) for kc in (False, True) for kb in (False, True)
        for mm in ('text', 'with-delimiters', 'verbatim', 'remove')]

MC = """---- MODULE MC_L2TRun ----
EXTENDS L2TRun
AtomsDef == %(atoms)s
BlocksDef == %(blocks)s
St0Def == %(st0)s
OptSetsDef == << %(opts)s >>
BlockPairsShard == -1
%(ctxdefs)s
%(textdefs)s
====
"""
CFG = """CONSTANTS
  VTok = "intended"
  VMarker = "intended"
  VVerb = "intended"
  VPosNone = "intended"
  Atoms <- AtomsDef
  Blocks <- BlocksDef
  St0 <- St0Def
  OptSets <- OptSetsDef
%(ctxconst)s
  MacroText <- MacroTextDef
  EnvText <- EnvTextDef
  SpecialsText <- SpecialsTextDef
  NfcTab <- NfcTabDef
  K = %(K)d
  Shard = %(shard)d
  Pols = {%(pols)s}
SPECIFICATION Spec
INVARIANT Compositional
INVARIANT Emit
CHECK_DEADLOCK FALSE
"""


def mc_text(atoms, K, blocks=BLOCKS):
    allatoms = list(atoms) + list(blocks)
    only = contexts.names_in_atoms('default', allatoms, K)
    macs, envs = contexts.formable_names(allatoms, K)
    specials = pstate.specials_of('default')
    bases = sorted(set(ord(c) for a in allatoms for c in a if c.isalpha()) | {32, 305, 567})
    st = pstate.make(ctx='default', tol=False)
    opts = ', '.join('[keep_comments |-> %s, keep_braced_groups |-> %s, math_mode |-> "%s"]' % (
        'TRUE' if o['keep_comments'] else 'FALSE', 'TRUE' if o['keep_braced_groups'] else 'FALSE', o['math_mode']) for o in OPTS)
    return MC % dict(atoms=pstate.atoms_tla(atoms), blocks=pstate.atoms_tla(blocks), st0=pstate.tla_record(st), opts=opts,
                     ctxdefs=contexts.tla_defs('default', only=only),
                     textdefs=l2tspec.tla_defs(macs, envs, [s for s in specials if s != '\n\n'], bases))


def cfg_text(K, shard):
    return CFG % dict(ctxconst=contexts.cfg_constants('default').rstrip('\n'), K=K, shard=shard,
                      pols=', '.join('"%s"' % p for p in POLS))


_l2t_cache = {}


def l2t(pol, o):
    from pylatexenc.latex2text import LatexNodes2Text
    k = (pol, o['keep_comments'], o['keep_braced_groups'], o['math_mode'])
    if k not in _l2t_cache:
        _l2t_cache[k] = LatexNodes2Text(strict_latex_spaces=POLVAL[pol], keep_comments=o['keep_comments'],
                                        keep_braced_groups=o['keep_braced_groups'], math_mode=o['math_mode'])
    return _l2t_cache[k]


class TextConsumer(Consumer):
    def feed(self, rec):
        self.n += 1
        s = uncodes(rec['s'])
        if len(s) > 1 and any(c in s for c in '\\{$%~'):
            self.nontrivial += 1
        self.sample(dict(s=s, macros_text=uncodes(rec['outs']['macros'][0])), every=1999)
        for pol, outs in rec['outs'].items():
            for i, out in enumerate(outs):
                if self.payload.get('rotate') and (i + self.n) % 2:
                    continue            # quick tier: every string under all policies and every second option set, alternating
                o = OPTS[i]
                m = uncodes(out)
                self.counters['renders'] += 1
                st, val = guarded(l2t(pol, o).latex_to_text, s, tolerant_parsing=False)
                case = dict(s=s, policy=pol, options=o)
                if st != 'ok':
                    self.violation('outcome', case, detail=dict(status=st, exc=repr(val), model=m),
                                   sig=dict(clause='outcome', exc=type(val).__name__))
                    return
                if val != m:
                    self.violation('text-differs', case, detail=dict(model=m, impl=val),
                                   sig=dict(clause='text-differs', policy=pol, math_mode=o['math_mode']))
                    return
        self.counters['same'] += 1


def run(ctx):
    quick = ctx.tier == 'quick'
    K = 3 if quick else 4
    atoms = ATOMS if not quick else ATOMS
    ctx.rule = ('TLC renders every strictly parseable string of <= K atoms over a %d-atom core alphabet (text, groups, '
                'formatting/symbol/accent/format macros, \\item, list / unknown / equation environments, specials, '
                'comments, paragraph breaks, inline and display math) under 4 whitespace policies x 16 option sets; '
                'latex_to_text must return exactly the same text; compositionality is checked on %d x %d block pairs. '
                'Non-trivial: the string contains markup.' % (len(ATOMS), len(BLOCKS), len(BLOCKS)))
    # quick: all atoms, K = 3, every second option set (alternating); thorough: all atoms, K = 3, every option set, and a core
    # alphabet at K = 4 (all atoms at K = 4 would be 3e6 strings x 96 renderings)
    CORE = ['a', ' ', '\n', '{', '}', '$', '%', '~', '\\[', '\\]', '\\alpha', '\\textbf', '\\frac', "\\'", '\\item',
            '\\begin{itemize}', '\\end{itemize}', '\\alpha ', '%c\n']
    plans = [(ATOMS, 3, True)] if quick else [(ATOMS, 3, False), (CORE, 4, True)]
    text = mc_text(ATOMS, 3)
    for patoms, pK, rot in plans:
        ptext = mc_text(patoms, pK)
        jobs = [dict(payload=dict(rotate=rot), main='MC_L2TRun', mc=ptext, cfg=cfg_text(pK, sh), tlc_kw=dict(timeout=6000, xmx='3g'))
                for sh in range(0, len(patoms) + 1)]
        m = common.run_shards(ctx, ('harness.c03', 'TextConsumer'), jobs, what='L2TRun %d atoms, strings <= %d' % (len(patoms), pK))
        ctx.add_merged(m)
        ctx.log('strings (%d atoms, <= %d): %d parseable strings, %d renderings compared, %d identical strings' % (
            len(patoms), pK, m['n'], m['counters'].get('renders', 0), m['counters'].get('same', 0)))
    # compositionality: TLC invariant on the model + the same equalities on the implementation
    r = common.run_tlc('MC_L2TRun', cfg_text(1, -1).replace('INVARIANT Emit\n', '').replace('Shard = -1', 'Shard <- BlockPairsShard'), mc_text=text, workers=common.NPROC,
                       timeout=3000, xmx='8g')
    ctx.add_tlc(r, 'L2TRun: compositionality on block pairs')
    common.tlc_must_pass(r, 'L2TRun compositionality')
    npairs = 0
    for a in BLOCKS:
        for b in BLOCKS:
            for sep in ('\n\n', ' '):
                for pol in POLS:
                    if sep == ' ' and pol in ('based-on-source', 'dict-mc'):
                        continue
                    for o in OPTS[::5]:
                        cv = l2t(pol, o)
                        st, val = guarded(lambda: (cv.latex_to_text(a + sep + b, tolerant_parsing=False),
                                                   cv.latex_to_text(a, tolerant_parsing=False) + sep + cv.latex_to_text(b, tolerant_parsing=False)))
                        npairs += 1
                        if st != 'ok' or val[0] != val[1]:
                            ctx.violation('not-compositional', dict(a=a, b=b, sep=sep, policy=pol, options=o),
                                          detail=dict(status=st, joined=repr(val)[:300]), sig=dict(clause='not-compositional'))
    ctx.evaluations += npairs
    ctx.log('compositionality: %d joined conversions compared' % npairs)
    run_documents(ctx)
    ctx.exhaustive = True
    ctx.assumptions += ['fill_text is not part of C03 (covered by C07 for totality only)',
                        'the symbol/format/accent/specials tables are extracted from the text database at check time']


DOC_SHARDS = [
    dict(macros=['textbf', 'frac'], envs=[], specials=['~'], argless=['alpha']),
    dict(macros=['emph', "'"], envs=['itemize'], specials=['--'], argless=[]),
    dict(macros=['sqrt', 'item'], envs=['itemize'], specials=[], argless=['beta']),
    dict(macros=['text', 'c'], envs=['equation'], specials=['``'], argless=['i']),
    dict(macros=['textit'], envs=['enumerate', 'equation'], specials=['---', '&'], argless=['alpha']),
]
DOC_FEATURES = ['group', 'math', 'display', 'comment', 'par', 'space', 'commenteof', 'argtoken', 'bracket']
DOC_MC = """---- MODULE MC_DocL2T ----
EXTENDS DocL2T
WMacrosDef == %(wmacros)s
WEnvsDef == %(wenvs)s
WSpecialsDef == %(wspecials)s
ArglessDef == %(argless)s
St0Def == %(st0)s
OptSetsDef == << %(opts)s >>
%(ctxdefs)s
%(textdefs)s
====
"""
DOC_CFG = """CONSTANTS
  MaxActs = %(maxacts)d
  WMacros <- WMacrosDef
  WEnvs <- WEnvsDef
  WSpecials <- WSpecialsDef
  ArglessMacros <- ArglessDef
  Faults = {}
  Features = {%(features)s}
  DiscardMacros = {}
  St0 <- St0Def
  OptSets <- OptSetsDef
%(ctxconst)s
  MacroText <- MacroTextDef
  EnvText <- EnvTextDef
  SpecialsText <- SpecialsTextDef
  NfcTab <- NfcTabDef
  Pols = {%(pols)s}
SPECIFICATION Spec
INVARIANT WellFormedAccepted
%(markers)sINVARIANT Emit
CHECK_DEADLOCK FALSE
"""


def doc_jobs(maxacts, features=DOC_FEATURES, shards=None, rotate=False):
    from . import docwriter
    d = contexts.describe('default')
    jobs = []
    for sh in (shards or DOC_SHARDS):
        macs = set(sh['macros']) | set(sh['argless'])
        envs = set(sh['envs'])
        wm = docwriter._set(['<<%s, %s>>' % (tla_seq(m), contexts._sig_tla(d['macros'][m])) for m in sh['macros']])
        we = docwriter._set(['<<%s, %s, "%s">>' % (tla_seq(e), contexts._sig_tla(d['envs'][e]['args']), d['envs'][e]['body'])
                             for e in sh['envs']])
        st = pstate.make(ctx='default', tol=False)
        opts = ', '.join('[keep_comments |-> %s, keep_braced_groups |-> %s, math_mode |-> "%s"]' % (
            'TRUE' if o['keep_comments'] else 'FALSE', 'TRUE' if o['keep_braced_groups'] else 'FALSE', o['math_mode']) for o in OPTS)
        specials = pstate.specials_of('default')
        text = DOC_MC % dict(wmacros=wm, wenvs=we, wspecials=docwriter._set([tla_seq(s) for s in sh['specials']]),
                             argless=docwriter._set([tla_seq(z) for z in sh['argless']]),
                             st0=pstate.tla_record(st).replace('AlphaDefault', 'L!AlphaDefault'), opts=opts,
                             ctxdefs=contexts.tla_defs('default', only=(macs, envs)),
                             textdefs=l2tspec.tla_defs(macs, envs, [s for s in specials if s != '\n\n'],
                                                       sorted({32, 305, 567} | set(range(48, 58)) | set(range(97, 123)))))
        # MarkersSurvive does not hold for a replacement that drops an argument (\sqrt[3]{x} -> the root symbol and x only)
        # (checked on the derivations of <= 3 actions, where it has been seen to hold for the other construct sets)
        markers = '' if ('sqrt' in sh['macros'] or maxacts > 3) else 'INVARIANT MarkersSurvive\n'
        cfg = DOC_CFG % dict(markers=markers, maxacts=maxacts, features=', '.join('"%s"' % f for f in features),
                             ctxconst=contexts.cfg_constants('default').rstrip('\n'), pols=', '.join('"%s"' % p for p in POLS))
        jobs.append(dict(payload=dict(rotate=rotate), main='MC_DocL2T', mc=text, cfg=cfg, tlc_kw=dict(timeout=6000, xmx='4g')))
    return jobs


def run_documents(ctx):
    quick = ctx.tier == 'quick'
    n = 3 if quick else 4
    m = common.run_shards(ctx, ('harness.c03', 'TextConsumer'), doc_jobs(n, rotate=quick), what='DocL2T written documents <= %d actions' % n)
    ctx.add_merged(m)
    ctx.log('written documents (<= %d actions, %d construct sets): %d documents, %d renderings compared' % (
        n, len(DOC_SHARDS), m['n'], m['counters'].get('renders', 0)))
    ctx.notes['documents'] = ('DocWriter x reference parser x L2T: every derivation of <= %d opening actions over %d construct '
                              'sets of the default databases, rendered under 4 policies x 16 option sets, exact' % (n, len(DOC_SHARDS)))


def replay(case):
    c = case['case']
    if 'a' in c and 'b' in c:
        cv = l2t(c['policy'], c['options'])
        j = cv.latex_to_text(c['a'] + c['sep'] + c['b'], tolerant_parsing=False)
        k = cv.latex_to_text(c['a'], tolerant_parsing=False) + c['sep'] + cv.latex_to_text(c['b'], tolerant_parsing=False)
        print(repr(j), repr(k))
        return j == k
    st, val = guarded(l2t(c['policy'], c['options']).latex_to_text, c['s'], tolerant_parsing=False)
    print(repr(c['s']), c['policy'], c['options'], '->', st, repr(val), 'model:', repr(case.get('detail', {}).get('model')))
    return st == 'ok' and val == case.get('detail', {}).get('model')

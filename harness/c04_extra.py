# -*- coding: utf-8 -*-
"""C04, further bindings: built-in tables ((D) extraction), the cached module-level helper
(histories), PartialLatexToLatexEncoder (token boundaries from Tokenizer.tla)."""
from __future__ import annotations

import itertools
import unicodedata

from . import common, pstate, contexts
from .common import Consumer, uncodes, codes, tla_seq, guarded
from . import c04

ACTIVE = list('\\~#$%&^_{}"<>|')


def table(name):
    from pylatexenc.latexencode import get_builtin_conversion_rules
    r = get_builtin_conversion_rules(name)[0]
    return dict(r.rule)


def _model_nfc(tab, s):
    """Encoder.tla Nfc() with the pair table `tab` (list of (a, b, composed))"""
    d = {(a, b): c for a, b, c in tab}
    cps = [ord(ch) for ch in s]
    out = []
    while len(cps) >= 2:
        if (cps[0], cps[1]) in d:
            cps = [d[(cps[0], cps[1])]] + cps[2:]
        else:
            out.append(cps[0])
            cps = cps[1:]
    return ''.join(chr(c) for c in out + cps)


class TableConsumer(Consumer):
    def feed(self, rec):
        from pylatexenc.latexencode import UnicodeToLatexEncoder
        self.n += 1
        s = uncodes(rec['s'])
        c = self.payload['cfgs'][rec['ci'] - 1]
        tname = self.payload['table']
        if len(s) >= 2:
            self.nontrivial += 1
        case = dict(s=s, codepoints=rec['s'], table=tname, scheme=c['scheme'], policy=c['policy'], nao=c['nao'])
        self.sample(dict(case, out=uncodes(rec['out'])), every=19997)
        nfc = self.payload.get('nfc')
        if nfc is not None and unicodedata.normalize('NFC', s) != _model_nfc(nfc, s):
            # normalisation beyond the model's pair table (canonical reordering of two combining marks): this string is judged
            # by the transcription of Encoder.tla, which takes the normalisation from the Unicode database
            exp = port_encode(s, self.payload['tab'], c['scheme'], c['policy'], c['nao'])
            rec = dict(rec, ok=exp is not None, out=codes(exp or ''))
            self.counters['nfc_outside_pair_table'] += 1
        enc = UnicodeToLatexEncoder(conversion_rules=[tname], replacement_latex_protection=c['scheme'],
                                    unknown_char_policy=c['policy'], non_ascii_only=c['nao'], unknown_char_warning=False)
        st, val = guarded(enc.unicode_to_latex, s)
        if st == 'exc' and isinstance(val, ValueError) and c['policy'] == 'fail' and not rec['ok']:
            self.counters['same:fail'] += 1
            return
        if st != 'ok':
            self.violation('exception', case, detail=dict(exc=repr(val), status=st),
                           sig=dict(clause='exception', exc=type(val).__name__))
            return
        if not rec['ok'] or val != uncodes(rec['out']):
            self.violation('output-differs', case, detail=dict(model=(uncodes(rec['out']) if rec['ok'] else 'ValueError'), impl=val),
                           sig=dict(clause='output-differs', table=tname))
            return
        self.counters['same'] += 1


def run_builtin_tables(ctx):
    quick = ctx.tier == 'quick'
    total = 0
    for tname in ('defaults', 'unicode-xml'):
        tab = table(tname)
        cps = sorted(tab)
        chunk = 24
        chunks = [cps[i:i + chunk] for i in range(0, len(cps), chunk)]
        if quick:
            chunks = chunks[::6][:14]
        # always one chunk with the LaTeX-active ASCII characters
        chunks.insert(0, [ord(ch) for ch in ACTIVE if ord(ch) in tab])
        jobs = []
        for ch in chunks:
            # characters that NFC rewrites on their own are left to the code-space sweep (normalisation from the Unicode
            # database); compositions of two alphabet characters (a + combining dot above) are given to the model
            ch = [cp for cp in ch if unicodedata.normalize('NFC', chr(cp)) == chr(cp)]
            alphabet = ch + [97, 32, 0xE000]
            nfc = c04._nfc_table(alphabet)
            composed = sorted(set(c for _a, _b, c in nfc) - set(ch))
            pool = [('dict', [(cp, tab[cp]) for cp in ch + composed if cp in tab], '')]
            cfgs = [dict(rules=[0], scheme=s, policy='keep', nao=False) for s in c04.SCHEMES] + \
                   [dict(rules=[0], scheme='braces', policy=p, nao=n) for p in ('fail', 'unihex', 'replace') for n in (False, True)]
            text = c04.mc_text(cfgs, pool=pool, alphabet=alphabet, nfc=nfc)
            jobs.append(dict(payload=dict(cfgs=cfgs, table=tname, nfc=nfc, tab={cp: tab[cp] for cp in ch + composed if cp in tab}),
                             main='MC_EncRun', mc=text,
                             cfg=(c04.CFG % dict(K=2, shard=-1, idx=', '.join(str(i + 1) for i in range(len(cfgs))))).replace('Shard = -1', 'Shard <- AllShards'),
                             tlc_kw=dict(timeout=3000, xmx='2g')))
        # group shards: one job per chunk would start too many JVMs; keep shard 0 and a few
        m = common.run_shards(ctx, ('harness.c04_extra', 'TableConsumer'), jobs,
                              what='EncRun instantiated with the built-in table %r (%d chunks)' % (tname, len(chunks)))
        ctx.add_merged(m)
        total += m['n']
        ctx.log('built-in table %s: %d entries, %d chunks of <= %d characters, %d cases, %s' % (
            tname, len(tab), len(chunks), chunk, m['n'], {k: v for k, v in m['counters'].items() if k.startswith('same')}))
    ctx.notes['builtin_tables'] = 'every character of each explored chunk alone and in ordered pairs (with a, space and an unknown character) under every protection scheme and policy'


# ---------------------------------------------------------------------------
# code-point windows: every code point of a range, alone, under every policy (the boundaries of the ASCII
# pass-through range, C1 controls, surrogates, ... are not left to a hand-picked list)

UNIHEX_PRE = '\\ensuremath{\\langle}\\texttt{U+'
UNIHEX_POST = '}\\ensuremath{\\rangle}'


def port_protect(scheme, r):
    """Encoder.tla Protect()."""
    k = r.rfind('\\')
    cw = k >= 0 and k < len(r) - 1 and all(('a' <= c <= 'z') or ('A' <= c <= 'Z') for c in r[k + 1:])
    if scheme == 'none':
        return r
    if scheme == 'braces':
        return '{' + r + '}' if cw else r
    if scheme == 'braces-almost-all':
        return '{' + r + '}' if r[:1] == '\\' else r
    if scheme == 'braces-all':
        return '{' + r + '}'
    if scheme == 'braces-after-macro':
        return r + '{}' if cw else r
    raise ValueError(scheme)


def port_encode(s, tab, scheme, policy, nao):
    """Encoder.tla Enc() for one dictionary rule (the transcription TLC is compared with on every window record)."""
    import unicodedata
    s = unicodedata.normalize('NFC', s)
    out = []
    for ch in s:
        c = ord(ch)
        if nao and c < 127:
            out.append(ch)
        elif c in tab:
            out.append(port_protect(scheme, tab[c]))
        elif (32 <= c <= 127) or c in (10, 13, 9):
            out.append(ch)
        elif policy == 'keep':
            out.append(ch)
        elif policy == 'replace':
            out.append('{\\bfseries ?}')
        elif policy == 'ignore':
            pass
        elif policy == 'unihex':
            out.append(UNIHEX_PRE + '%04X' % c + UNIHEX_POST)
        else:
            return None
    return ''.join(out)


WINDOW_CFGS = [dict(rules=[0], scheme='braces', policy=p, nao=n) for p in c04.POLICIES for n in (False, True)]


class WindowConsumer(TableConsumer):
    def feed(self, rec):
        # the transcription used for the whole-code-space sweep must agree with TLC on every record
        c = self.payload['cfgs'][rec['ci'] - 1]
        s = uncodes(rec['s'])
        exp = port_encode(s, self.payload['tab'], c['scheme'], c['policy'], c['nao'])
        if (exp is None) != (not rec['ok']) or (exp is not None and exp != uncodes(rec['out'])):
            raise common.MachineryError('port_encode disagrees with Encoder.tla on %r %r: %r vs %r' % (s, c, exp, rec))
        TableConsumer.feed(self, rec)


def _sweep_worker(args):
    tname, lo, hi, policy, nao, warn = args
    import logging
    logging.disable(logging.CRITICAL)
    from pylatexenc.latexencode import UnicodeToLatexEncoder
    tab = table(tname)
    kw = {} if warn else dict(unknown_char_warning=False)      # warn: the default setting (a warning is logged per unknown character)
    enc = UnicodeToLatexEncoder(conversion_rules=[tname], replacement_latex_protection='braces', unknown_char_policy=policy,
                                non_ascii_only=nao, **kw)
    bad = []
    n = 0
    for cp in range(lo, hi):
        for s in (chr(cp), 'a' + chr(cp) + '%'):
            n += 1
            exp = port_encode(s, tab, 'braces', policy, nao)
            st, val = guarded(enc.unicode_to_latex, s)
            if exp is None:
                ok = st == 'exc' and isinstance(val, ValueError)
            else:
                ok = st == 'ok' and val == exp
            if not ok and len(bad) < 20:
                bad.append((s, repr(val), exp))
    return tname, policy, nao, warn, n, bad


def run_codepoint_windows(ctx):
    quick = ctx.tier == 'quick'
    W = 512
    hi_tlc = 0x800 if quick else 0x10000
    total = 0
    for tname in ('defaults', 'unicode-xml'):
        tab = table(tname)
        jobs = []
        for lo in range(0, hi_tlc, W):
            # code points that NFC rewrites on their own (singleton / canonical decompositions) are left to the sweep
            # below, where the normalisation comes from the Unicode database
            window = [cp for cp in range(lo, lo + W) if unicodedata.normalize('NFC', chr(cp)) == chr(cp)]
            pool = [('dict', [(cp, tab[cp]) for cp in window if cp in tab], '')]
            text = c04.mc_text(WINDOW_CFGS, pool=pool, alphabet=window, nfc=[])
            jobs.append(dict(payload=dict(cfgs=WINDOW_CFGS, table=tname, tab={cp: tab[cp] for cp in window if cp in tab}),
                             main='MC_EncRun', mc=text,
                             cfg=(c04.CFG % dict(K=1, shard=-1, idx=', '.join(str(i + 1) for i in range(len(WINDOW_CFGS))))
                                  ).replace('Shard = -1', 'Shard <- AllShards'),
                             tlc_kw=dict(timeout=3000, xmx='2g')))
        m = common.run_shards(ctx, ('harness.c04_extra', 'WindowConsumer'), jobs,
                              what='EncRun on every code point below U+%04X alone, table %r, 5 policies x non_ascii_only' % (hi_tlc, tname))
        ctx.add_merged(m)
        total += m['n']
        ctx.log('code-point windows %s: U+0000..U+%04X, %d cases, %s' % (tname, hi_tlc - 1, m['n'],
                {k: v for k, v in m['counters'].items() if k.startswith('same')}))
    # whole code space through the transcription of Encoder.tla validated above (instantiated replay beyond TLC's range)
    step = 0x2000
    top = 0x30000 if quick else 0x110000
    tasks = [(tname, lo, min(lo + step, top), policy, nao, warn)
             for tname in ('defaults', 'unicode-xml')
             for policy, nao, warn in (('fail', False, False), ('unihex', False, True), ('replace', True, True), ('keep', False, True))
             for lo in range(0, top, step)]
    n = 0
    for tname, policy, nao, warn, k, bad in common.pool_map(_sweep_worker, tasks):
        n += k
        for s, got, exp in bad:
            ctx.violation('output-differs', dict(s=s, codepoints=[ord(c) for c in s], table=tname, scheme='braces', policy=policy, nao=nao,
                                                  default_warning_setting=warn),
                          detail=dict(model=('ValueError' if exp is None else exp), impl=got),
                          sig=dict(clause='output-differs', table=tname))
    ctx.evaluations += n
    ctx.log('code-space sweep: %d single-character / embedded strings for U+0000..U+%X (fail, unihex, replace+non_ascii_only)' % (n, top - 1))
    ctx.notes['codepoint_windows'] = ('every code point below U+%04X alone under 5 policies x non_ascii_only by TLC (EncRun, table '
                                      'entries of the window); U+0000..U+%X through the Python transcription of Encoder.tla that is '
                                      'compared with TLC on every window record' % (hi_tlc, top - 1))


# ---------------------------------------------------------------------------

HELPER_OPTS = [dict(nao=False, scheme='braces', policy='keep'), dict(nao=True, scheme='braces', policy='keep'),
               dict(nao=False, scheme='none', policy='keep'), dict(nao=False, scheme='braces', policy='replace'),
               dict(nao=True, scheme='braces-all', policy='unihex'), dict(nao=False, scheme='braces', policy='fail')]
HELPER_STRINGS = ['a\u00e9 %\u03b1', '\ue000x{\u00e9}', '\\~\x01']

HELPER_MC = """---- MODULE MC_EncHelper ----
EXTENDS EncHelper
OptsDef == {%(opts)s}
====
"""
HELPER_CFG = """CONSTANTS
  Opts <- OptsDef
  MaxLen = %(maxlen)d
  Variant = "%(variant)s"
  Emit_ = %(emit)s
SPECIFICATION Spec
INVARIANT ServedByOwnOptions
INVARIANT Emit
CHECK_DEADLOCK FALSE
"""


def _opts_tla():
    return ', '.join('[nao |-> %s, scheme |-> "%s", policy |-> "%s"]' % ('TRUE' if o['nao'] else 'FALSE', o['scheme'], o['policy'])
                     for o in HELPER_OPTS)


def helper_call(o, s):
    from pylatexenc import latexencode
    try:
        return ('ok', latexencode.unicode_to_latex(s, non_ascii_only=o['nao'], replacement_latex_protection=o['scheme'],
                                                   unknown_char_policy=o['policy'], unknown_char_warning=False))
    except ValueError as e:
        return ('ValueError', None)


def fresh_call(o, s):
    from pylatexenc.latexencode import UnicodeToLatexEncoder
    try:
        return ('ok', UnicodeToLatexEncoder(non_ascii_only=o['nao'], replacement_latex_protection=o['scheme'],
                                            unknown_char_policy=o['policy'], unknown_char_warning=False).unicode_to_latex(s))
    except ValueError:
        return ('ValueError', None)


class HelperConsumer(Consumer):
    def feed(self, rec):
        from pylatexenc import latexencode
        hist = rec['hist']
        if not hist:
            return
        self.n += 1
        if len(hist) >= 2:
            self.nontrivial += 1
        latexencode._u2l_obj_cache.clear() if hasattr(latexencode, '_u2l_obj_cache') else None
        # a history is replayed from an empty cache: reload is not possible cheaply, clearing the public-by-name
        # module dictionary is the documented way the cache can be reset
        for k, o in enumerate(hist):
            opt = dict(nao=o['nao'], scheme=o['scheme'], policy=o['policy'])
            for s in HELPER_STRINGS:
                st, got = guarded(helper_call, opt, s)
                exp = fresh_call(opt, s)
                self.counters['calls'] += 1
                if st != 'ok' or got != exp:
                    self.violation('helper-differs-from-fresh-encoder', dict(history=hist, step=k + 1, s=s),
                                   detail=dict(helper=repr(got), fresh=repr(exp)), sig=dict(clause='helper-cache'))
                    return
        self.sample(dict(history=hist), every=97)


C13_HELPER_OPTS = [dict(nao=False, scheme='braces', policy=p) for p in ('keep', 'replace', 'ignore', 'unihex', 'fail')] + \
                  [dict(nao=True, scheme='braces', policy='replace')]
C13_HELPER_STRINGS = ['a\u00e9 \u0e18%', '\ue000x', 'plain {a} #']


class HelperAsciiConsumer(Consumer):
    """C13 on the module-level helper: whatever was called before, a call with policy replace / ignore / unihex returns
    pure ASCII and a call with policy fail raises ValueError exactly when a character has no rule and is outside the
    pass-through range (classification by the transcription of Encoder.tla)."""

    def feed(self, rec):
        from pylatexenc import latexencode
        hist = rec['hist']
        if not hist:
            return
        self.n += 1
        if len(hist) >= 2:
            self.nontrivial += 1
        if hasattr(latexencode, '_u2l_obj_cache'):
            latexencode._u2l_obj_cache.clear()
        tab = table('defaults')
        for k, o in enumerate(hist):
            opt = dict(nao=o['nao'], scheme=o['scheme'], policy=o['policy'])
            for s in C13_HELPER_STRINGS:
                st, got = guarded(helper_call, opt, s)
                self.counters['calls'] += 1
                case = dict(history=hist, step=k + 1, s=s, options=opt)
                if st != 'ok':
                    self.violation('encoder-outcome', case, detail=dict(status=st, exc=repr(got)), sig=dict(clause='encoder-outcome'))
                    return
                status, val = got
                exp = port_encode(s, tab, opt['scheme'], opt['policy'], opt['nao'])
                if opt['policy'] == 'fail' and (exp is None) != (status == 'ValueError'):
                    self.violation('fail-iff-unmatched', case, detail=dict(raised=(status == 'ValueError'), expected_raise=(exp is None)),
                                   sig=dict(clause='fail-iff-unmatched'))
                    return
                if opt['policy'] in ('replace', 'ignore', 'unihex') and status == 'ok' and any(ord(c) > 127 for c in val):
                    self.violation('non-ascii', case, detail=dict(encoded=val), sig=dict(clause='non-ascii'))
                    return
        self.sample(dict(history=hist), every=97)


def run_helper_histories_c13(ctx):
    quick = ctx.tier == 'quick'
    opts = ', '.join('[nao |-> %s, scheme |-> "%s", policy |-> "%s"]' % ('TRUE' if o['nao'] else 'FALSE', o['scheme'], o['policy'])
                     for o in C13_HELPER_OPTS)
    text = HELPER_MC % dict(opts=opts)
    job = dict(main='MC_EncHelper', mc=text, cfg=HELPER_CFG % dict(maxlen=3 if quick else 4, variant='intended', emit='TRUE'),
               tlc_kw=dict(timeout=1200, workers=1))
    m = common.run_dispatch(ctx, ('harness.c04_extra', 'HelperAsciiConsumer'), job,
                            what='EncHelper: histories of module-level unicode_to_latex() calls (ASCII-only / fail-iff)', batch=20)
    ctx.add_merged(m)
    ctx.log('module-level helper histories: %d histories, %d calls' % (m['n'], m['counters'].get('calls', 0)))


def run_helper_histories(ctx):
    quick = ctx.tier == 'quick'
    text = HELPER_MC % dict(opts=_opts_tla())
    rc = common.run_tlc('MC_EncHelper', HELPER_CFG % dict(maxlen=3, variant='as_implemented_key_missing_field',
                                                          emit='FALSE'), mc_text=text, workers=2, timeout=300)
    ctx.add_tlc(rc, 'control: helper cache key missing a field')
    ctx.control('cache key missing an option violates ServedByOwnOptions', rc.violated == 'ServedByOwnOptions', str(rc.violated))
    job = dict(main='MC_EncHelper', mc=text, cfg=HELPER_CFG % dict(maxlen=3 if quick else 4, variant='intended', emit='TRUE'),
               tlc_kw=dict(timeout=1200, workers=1))
    m = common.run_dispatch(ctx, ('harness.c04_extra', 'HelperConsumer'), job, what='EncHelper: histories of helper calls', batch=20)
    ctx.add_merged(m)
    ctx.log('helper histories: %d histories, %d calls' % (m['n'], m['counters'].get('calls', 0)))


# ---------------------------------------------------------------------------

P_ATOMS = ['\\', 'a', ' ', '{', '}', '$', '^', '_', '%', '\u00e9', '\n', '\\begin', '\\begin{a}', '\\alpha ', '$$', '\\(', '~', '\\end', '\u0301', 'e']
PCFG = """CONSTANTS
  VTok = "intended"
  Atoms <- AtomsDef
  K = %(K)d
  Shard = %(shard)d
  St0 <- St0Def
  KeepChars = {92, 36, 123, 125, 94, 95}
  PCfg <- PCfgDef
  VPartial = "%(variant)s"
  NfcTab <- NfcDef
SPECIFICATION Spec
INVARIANT NeverRaises
INVARIANT SameAsPlainWithoutKeepChars
%(emit)s
CHECK_DEADLOCK FALSE
"""
PMC = """---- MODULE MC_PartialEnc ----
EXTENDS PartialEnc
AtomsDef == %(atoms)s
St0Def == %(st0)s
NfcDef == << %(nfc)s >>
PCfgDef == [rules |-> << %(rule)s >>, scheme |-> "%(scheme)s", policy |-> "keep", non_ascii_only |-> %(nao)s]
====
"""


def partial_mc(scheme, nao):
    tab = table('defaults')
    chars = sorted(set(ord(c) for a in P_ATOMS for c in a))
    nfc = c04._nfc_table(chars)
    chars = sorted(set(chars) | set(c for _a, _b, c in nfc))
    rule = c04.rule_tla(('dict', [(cp, tab[cp]) for cp in chars if cp in tab], ''))
    return PMC % dict(atoms=pstate.atoms_tla(P_ATOMS), st0=pstate.tla_record(pstate.make(ctx='default')),
                      rule=rule, nfc=', '.join('<<%d, %d, %d>>' % x for x in nfc), scheme=scheme, nao='TRUE' if nao else 'FALSE')


class PartialConsumer(Consumer):
    def feed(self, rec):
        from pylatexenc.latexencode import PartialLatexToLatexEncoder
        self.n += 1
        s = uncodes(rec['s'])
        if any(c in s for c in '\\${}^_'):
            self.nontrivial += 1
        case = dict(s=s, scheme=self.payload['scheme'], nao=self.payload['nao'], partial=True)
        self.sample(dict(case, out=uncodes(rec['out'])), every=4999)
        enc = PartialLatexToLatexEncoder(replacement_latex_protection=self.payload['scheme'], non_ascii_only=self.payload['nao'],
                                         unknown_char_warning=False)
        st, val = guarded(enc.unicode_to_latex, s)
        if st != 'ok':
            self.violation('partial-raises', case, detail=dict(exc=repr(val), status=st),
                           sig=dict(clause='partial-raises', exc=type(val).__name__))
            return
        if val != uncodes(rec['out']):
            self.violation('partial-output-differs', case, detail=dict(model=uncodes(rec['out']), impl=val),
                           sig=dict(clause='partial-output-differs'))
            return
        self.counters['same'] += 1


def run_partial(ctx):
    quick = ctx.tier == 'quick'
    K = 3 if quick else 4
    rc = common.run_tlc('MC_PartialEnc', PCFG % dict(K=2, shard=2, variant='as_implemented', emit=''),
                        mc_text=partial_mc('braces', False), workers=2, timeout=300)
    ctx.add_tlc(rc, 'control: partial encoder lets the token error escape')
    ctx.control('as_implemented partial encoder violates NeverRaises', rc.violated == 'NeverRaises', str(rc.violated) + str(rc.error))
    for scheme, nao in ([('braces', False), ('none', True)] if quick else [(s, n) for s in c04.SCHEMES for n in (False, True)]):
        text = partial_mc(scheme, nao)
        jobs = [dict(payload=dict(scheme=scheme, nao=nao), main='MC_PartialEnc', mc=text,
                     cfg=PCFG % dict(K=K, shard=sh, variant='intended', emit='INVARIANT Emit'), tlc_kw=dict(timeout=3000, xmx='2g'))
                for sh in range(0, len(P_ATOMS) + 1)]
        m = common.run_shards(ctx, ('harness.c04_extra', 'PartialConsumer'), jobs,
                              what='PartialEnc scheme=%s non_ascii_only=%s K=%d' % (scheme, nao, K))
        ctx.add_merged(m)
        ctx.log('partial encoder %s/%s: %d strings, %s' % (scheme, nao, m['n'], {k: v for k, v in m['counters'].items() if k == 'same'}))


def replay(case):
    c = case['case']
    if 'history' in c and 'layout' not in c:
        from pylatexenc import latexencode
        if hasattr(latexencode, '_u2l_obj_cache'):
            latexencode._u2l_obj_cache.clear()
        ok = True
        for k, o in enumerate(c['history']):
            opt = dict(nao=o['nao'], scheme=o['scheme'], policy=o['policy'])
            for s in HELPER_STRINGS:
                got, exp = helper_call(opt, s), fresh_call(opt, s)
                print('call %d' % (k + 1), opt, repr(s), '-> helper', got, 'fresh encoder', exp, '' if got == exp else '  <-- differs')
                ok = ok and got == exp
        return ok
    if c.get('partial'):
        from pylatexenc.latexencode import PartialLatexToLatexEncoder
        enc = PartialLatexToLatexEncoder(replacement_latex_protection=c['scheme'], non_ascii_only=c['nao'], unknown_char_warning=False)
        st, val = guarded(enc.unicode_to_latex, c['s'])
        print('partial encoder', repr(c['s']), '->', st, repr(val))
        return st == 'ok' and case.get('clause') != 'partial-output-differs'
    if 'table' in c and 'policy' in c and 'nao' in c:
        from pylatexenc.latexencode import UnicodeToLatexEncoder
        kw = {} if c.get('default_warning_setting') else dict(unknown_char_warning=False)
        enc = UnicodeToLatexEncoder(conversion_rules=[c['table']], replacement_latex_protection=c['scheme'],
                                    unknown_char_policy=c['policy'], non_ascii_only=c['nao'], **kw)
        st, val = guarded(enc.unicode_to_latex, c['s'])
        exp = port_encode(c['s'], table(c['table']), c['scheme'], c['policy'], c['nao'])
        print('encoder', repr(c['s']), c['table'], c['policy'], '->', st, repr(val), '; rule semantics:', repr(exp) if exp is not None else 'ValueError')
        return (st == 'exc' and isinstance(val, ValueError)) if exp is None else (st == 'ok' and val == exp)
    print(c)
    return False

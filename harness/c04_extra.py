# -*- coding: utf-8 -*-
"""C04, further bindings: built-in tables ((D) extraction), the cached module-level helper
(histories), PartialLatexToLatexEncoder (token boundaries from Tokenizer.tla)."""
from __future__ import annotations

import itertools

from . import common, pstate, contexts
from .common import Consumer, uncodes, codes, tla_seq, guarded
from . import c04

ACTIVE = list('\\~#$%&^_{}"<>|')


def table(name):
    from pylatexenc.latexencode import get_builtin_conversion_rules
    r = get_builtin_conversion_rules(name)[0]
    return dict(r.rule)


class TableConsumer(Consumer):
    def feed(self, rec):
        from pylatexenc.latexencode import UnicodeToLatexEncoder
        self.n += 1
        s = uncodes(rec['s'])
        c = self.payload['cfgs'][rec['ci'] - 1]
        tname = self.payload['table']
        if len(s) >= 2:
            self.nontrivial += 1
        case = dict(s=s, codepoints=rec['s'], table=tname, scheme=c['scheme'], policy=c['policy'], nao=c['nao'])
        self.sample(dict(case, out=uncodes(rec['out'])), every=19997)
        enc = UnicodeToLatexEncoder(conversion_rules=[tname], replacement_latex_protection=c['scheme'],
                                    unknown_char_policy=c['policy'], non_ascii_only=c['nao'], unknown_char_warning=False)
        st, val = guarded(enc.unicode_to_latex, s)
        if st == 'exc' and isinstance(val, ValueError) and c['policy'] == 'fail' and not rec['ok']:
            self.counters['same:fail'] += 1
            return
        if st != 'ok':
            self.violation('exception', case, detail=dict(exc=repr(val), status=st),
                           sig=dict(clause='exception', exc=type(val).__name__))
            return
        if not rec['ok'] or val != uncodes(rec['out']):
            self.violation('output-differs', case, detail=dict(model=(uncodes(rec['out']) if rec['ok'] else 'ValueError'), impl=val),
                           sig=dict(clause='output-differs', table=tname))
            return
        self.counters['same'] += 1


def run_builtin_tables(ctx):
    quick = ctx.tier == 'quick'
    total = 0
    for tname in ('defaults', 'unicode-xml'):
        tab = table(tname)
        cps = sorted(tab)
        chunk = 24
        chunks = [cps[i:i + chunk] for i in range(0, len(cps), chunk)]
        if quick:
            chunks = chunks[::6][:14]
        # always one chunk with the LaTeX-active ASCII characters
        chunks.insert(0, [ord(ch) for ch in ACTIVE if ord(ch) in tab])
        jobs = []
        for ch in chunks:
            alphabet = ch + [97, 32, 0xE000]
            pool = [('dict', [(cp, tab[cp]) for cp in ch], '')]
            cfgs = [dict(rules=[0], scheme=s, policy='keep', nao=False) for s in c04.SCHEMES] + \
                   [dict(rules=[0], scheme='braces', policy=p, nao=n) for p in ('fail', 'unihex', 'replace') for n in (False, True)]
            text = c04.mc_text(cfgs, pool=pool, alphabet=alphabet, nfc=[])
            jobs.append(dict(payload=dict(cfgs=cfgs, table=tname), main='MC_EncRun', mc=text,
                             cfg=(c04.CFG % dict(K=2, shard=-1, idx=', '.join(str(i + 1) for i in range(len(cfgs))))).replace('Shard = -1', 'Shard <- AllShards'),
                             tlc_kw=dict(timeout=3000, xmx='2g')))
        # group shards: one job per chunk would start too many JVMs; keep shard 0 and a few
        m = common.run_shards(ctx, ('harness.c04_extra', 'TableConsumer'), jobs,
                              what='EncRun instantiated with the built-in table %r (%d chunks)' % (tname, len(chunks)))
        ctx.add_merged(m)
        total += m['n']
        ctx.log('built-in table %s: %d entries, %d chunks of <= %d characters, %d cases, %s' % (
            tname, len(tab), len(chunks), chunk, m['n'], {k: v for k, v in m['counters'].items() if k.startswith('same')}))
    ctx.notes['builtin_tables'] = 'every character of each explored chunk alone and in ordered pairs (with a, space and an unknown character) under every protection scheme and policy'


# ---------------------------------------------------------------------------

HELPER_OPTS = [dict(nao=False, scheme='braces', policy='keep'), dict(nao=True, scheme='braces', policy='keep'),
               dict(nao=False, scheme='none', policy='keep'), dict(nao=False, scheme='braces', policy='replace'),
               dict(nao=True, scheme='braces-all', policy='unihex'), dict(nao=False, scheme='braces', policy='fail')]
HELPER_STRINGS = ['a\u00e9 %\u03b1', '\ue000x{\u00e9}', '\\~\x01']

HELPER_MC = """---- MODULE MC_EncHelper ----
EXTENDS EncHelper
OptsDef == {%(opts)s}
====
"""
HELPER_CFG = """CONSTANTS
  Opts <- OptsDef
  MaxLen = %(maxlen)d
  Variant = "%(variant)s"
  Emit_ = %(emit)s
SPECIFICATION Spec
INVARIANT ServedByOwnOptions
INVARIANT Emit
CHECK_DEADLOCK FALSE
"""


def _opts_tla():
    return ', '.join('[nao |-> %s, scheme |-> "%s", policy |-> "%s"]' % ('TRUE' if o['nao'] else 'FALSE', o['scheme'], o['policy'])
                     for o in HELPER_OPTS)


def helper_call(o, s):
    from pylatexenc import latexencode
    try:
        return ('ok', latexencode.unicode_to_latex(s, non_ascii_only=o['nao'], replacement_latex_protection=o['scheme'],
                                                   unknown_char_policy=o['policy'], unknown_char_warning=False))
    except ValueError as e:
        return ('ValueError', None)


def fresh_call(o, s):
    from pylatexenc.latexencode import UnicodeToLatexEncoder
    try:
        return ('ok', UnicodeToLatexEncoder(non_ascii_only=o['nao'], replacement_latex_protection=o['scheme'],
                                            unknown_char_policy=o['policy'], unknown_char_warning=False).unicode_to_latex(s))
    except ValueError:
        return ('ValueError', None)


class HelperConsumer(Consumer):
    def feed(self, rec):
        from pylatexenc import latexencode
        hist = rec['hist']
        if not hist:
            return
        self.n += 1
        if len(hist) >= 2:
            self.nontrivial += 1
        latexencode._u2l_obj_cache.clear() if hasattr(latexencode, '_u2l_obj_cache') else None
        # a history is replayed from an empty cache: reload is not possible cheaply, clearing the public-by-name
        # module dictionary is the documented way the cache can be reset
        for k, o in enumerate(hist):
            opt = dict(nao=o['nao'], scheme=o['scheme'], policy=o['policy'])
            for s in HELPER_STRINGS:
                st, got = guarded(helper_call, opt, s)
                exp = fresh_call(opt, s)
                self.counters['calls'] += 1
                if st != 'ok' or got != exp:
                    self.violation('helper-differs-from-fresh-encoder', dict(history=hist, step=k + 1, s=s),
                                   detail=dict(helper=repr(got), fresh=repr(exp)), sig=dict(clause='helper-cache'))
                    return
        self.sample(dict(history=hist), every=97)


def run_helper_histories(ctx):
    quick = ctx.tier == 'quick'
    text = HELPER_MC % dict(opts=_opts_tla())
    rc = common.run_tlc('MC_EncHelper', HELPER_CFG % dict(maxlen=3, variant='as_implemented_key_missing_field',
                                                          emit='FALSE'), mc_text=text, workers=2, timeout=300)
    ctx.add_tlc(rc, 'control: helper cache key missing a field')
    ctx.control('cache key missing an option violates ServedByOwnOptions', rc.violated == 'ServedByOwnOptions', str(rc.violated))
    job = dict(main='MC_EncHelper', mc=text, cfg=HELPER_CFG % dict(maxlen=3 if quick else 4, variant='intended', emit='TRUE'),
               tlc_kw=dict(timeout=1200, workers=1))
    m = common.run_dispatch(ctx, ('harness.c04_extra', 'HelperConsumer'), job, what='EncHelper: histories of helper calls', batch=20)
    ctx.add_merged(m)
    ctx.log('helper histories: %d histories, %d calls' % (m['n'], m['counters'].get('calls', 0)))


# ---------------------------------------------------------------------------

P_ATOMS = ['\\', 'a', ' ', '{', '}', '$', '^', '_', '%', '\u00e9', '\n', '\\begin', '\\begin{a}', '\\alpha ', '$$', '\\(', '~', '\\end']
PCFG = """CONSTANTS
  VTok = "intended"
  Atoms <- AtomsDef
  K = %(K)d
  Shard = %(shard)d
  St0 <- St0Def
  KeepChars = {92, 36, 123, 125, 94, 95}
  PCfg <- PCfgDef
  VPartial = "%(variant)s"
SPECIFICATION Spec
INVARIANT NeverRaises
INVARIANT SameAsPlainWithoutKeepChars
%(emit)s
CHECK_DEADLOCK FALSE
"""
PMC = """---- MODULE MC_PartialEnc ----
EXTENDS PartialEnc
AtomsDef == %(atoms)s
St0Def == %(st0)s
PCfgDef == [rules |-> << %(rule)s >>, scheme |-> "%(scheme)s", policy |-> "keep", non_ascii_only |-> %(nao)s]
====
"""


def partial_mc(scheme, nao):
    tab = table('defaults')
    chars = sorted(set(ord(c) for a in P_ATOMS for c in a))
    rule = c04.rule_tla(('dict', [(cp, tab[cp]) for cp in chars if cp in tab], ''))
    return PMC % dict(atoms=pstate.atoms_tla(P_ATOMS), st0=pstate.tla_record(pstate.make(ctx='default')),
                      rule=rule, scheme=scheme, nao='TRUE' if nao else 'FALSE')


class PartialConsumer(Consumer):
    def feed(self, rec):
        from pylatexenc.latexencode import PartialLatexToLatexEncoder
        self.n += 1
        s = uncodes(rec['s'])
        if any(c in s for c in '\\${}^_'):
            self.nontrivial += 1
        case = dict(s=s, scheme=self.payload['scheme'], nao=self.payload['nao'], partial=True)
        self.sample(dict(case, out=uncodes(rec['out'])), every=4999)
        enc = PartialLatexToLatexEncoder(replacement_latex_protection=self.payload['scheme'], non_ascii_only=self.payload['nao'],
                                         unknown_char_warning=False)
        st, val = guarded(enc.unicode_to_latex, s)
        if st != 'ok':
            self.violation('partial-raises', case, detail=dict(exc=repr(val), status=st),
                           sig=dict(clause='partial-raises', exc=type(val).__name__))
            return
        if val != uncodes(rec['out']):
            self.violation('partial-output-differs', case, detail=dict(model=uncodes(rec['out']), impl=val),
                           sig=dict(clause='partial-output-differs'))
            return
        self.counters['same'] += 1


def run_partial(ctx):
    quick = ctx.tier == 'quick'
    K = 3 if quick else 4
    rc = common.run_tlc('MC_PartialEnc', PCFG % dict(K=2, shard=2, variant='as_implemented', emit=''),
                        mc_text=partial_mc('braces', False), workers=2, timeout=300)
    ctx.add_tlc(rc, 'control: partial encoder lets the token error escape')
    ctx.control('as_implemented partial encoder violates NeverRaises', rc.violated == 'NeverRaises', str(rc.violated) + str(rc.error))
    for scheme, nao in ([('braces', False), ('none', True)] if quick else [(s, n) for s in c04.SCHEMES for n in (False, True)]):
        text = partial_mc(scheme, nao)
        jobs = [dict(payload=dict(scheme=scheme, nao=nao), main='MC_PartialEnc', mc=text,
                     cfg=PCFG % dict(K=K, shard=sh, variant='intended', emit='INVARIANT Emit'), tlc_kw=dict(timeout=3000, xmx='2g'))
                for sh in range(0, len(P_ATOMS) + 1)]
        m = common.run_shards(ctx, ('harness.c04_extra', 'PartialConsumer'), jobs,
                              what='PartialEnc scheme=%s non_ascii_only=%s K=%d' % (scheme, nao, K))
        ctx.add_merged(m)
        ctx.log('partial encoder %s/%s: %d strings, %s' % (scheme, nao, m['n'], {k: v for k, v in m['counters'].items() if k == 'same'}))


def replay(case):
    c = case['case']
    if c.get('partial'):
        from pylatexenc.latexencode import PartialLatexToLatexEncoder
        enc = PartialLatexToLatexEncoder(replacement_latex_protection=c['scheme'], non_ascii_only=c['nao'], unknown_char_warning=False)
        st, val = guarded(enc.unicode_to_latex, c['s'])
        print('partial encoder', repr(c['s']), '->', st, repr(val))
        return st == 'ok' and case.get('clause') != 'partial-output-differs'
    print(c)
    return False

# -*- coding: utf-8 -*-
"""Driver for spec/DocWriter.tla + spec/DocCheck.tla: well-formed documents with the
structure they were written with (C02), optionally with one injected structural fault
(C05 clause 2)."""
from __future__ import annotations

from . import common, contexts, pstate, parsecommon as pc
from .common import Consumer, uncodes, tla_seq

MC = """---- MODULE MC_DocCheck ----
EXTENDS DocCheck
WMacrosDef == %(wmacros)s
WEnvsDef == %(wenvs)s
WSpecialsDef == %(wspecials)s
ArglessDef == %(argless)s
FaultsDef == %(faults)s
DiscardDef == %(discard)s
St0Def == %(st0)s
%(ctxdefs)s
====
"""
CFG = """CONSTANTS
  MaxActs = %(maxacts)d
  WMacros <- WMacrosDef
  WEnvs <- WEnvsDef
  WSpecials <- WSpecialsDef
  ArglessMacros <- ArglessDef
  Faults <- FaultsDef
  Features = {%(features)s}
  DiscardMacros <- DiscardDef
  St0 <- St0Def
%(ctxconst)s
  EmitFaulted = %(emitfaulted)s
  EmitPlain = %(emitplain)s
SPECIFICATION Spec
INVARIANT WellFormedAccepted
INVARIANT FaultRejected
INVARIANT Emit
CHECK_DEADLOCK FALSE
"""

FAULT_TOKENS = ['{', '}', '$', '\\(', '\\)', '\\[', '\\]']


def _set(items):
    return '{' + ', '.join(items) + '}' if items else '{}'


def mc_text(ctxname, macros, envs, specials, argless, fault_envs, discard=()):
    d = contexts.describe(ctxname)
    wm = _set(['<<%s, %s>>' % (tla_seq(m), contexts._sig_tla(d['macros'][m])) for m in macros])
    we = _set(['<<%s, %s, "%s">>' % (tla_seq(e), contexts._sig_tla(d['envs'][e]['args']), d['envs'][e]['body'])
               for e in envs])
    faults = list(FAULT_TOKENS) + ['\\begin{%s}' % e for e in fault_envs] + ['\\end{%s}' % e for e in fault_envs]
    st = pstate.make(ctx=ctxname, tol=False)
    only = None
    if ctxname == 'default':
        only = (set(macros) | set(argless), set(envs) | set(fault_envs))
    return MC % dict(wmacros=wm, wenvs=we, wspecials=_set([tla_seq(s) for s in specials]),
                     argless=_set([tla_seq(z) for z in argless]), faults=_set([tla_seq(f) for f in faults]),
                     discard=_set([tla_seq(z) for z in discard]),
                     st0=pstate.tla_record(st).replace('AlphaDefault', 'P!AlphaDefault'), ctxdefs=contexts.tla_defs(ctxname, only=only))


def cfg_text(ctxname, maxacts, features, emitfaulted, emitplain):
    return CFG % dict(maxacts=maxacts, features=', '.join('"%s"' % f for f in features),
                      ctxconst=contexts.cfg_constants(ctxname).rstrip('\n'),
                      emitfaulted='TRUE' if emitfaulted else 'FALSE', emitplain='TRUE' if emitplain else 'FALSE')


# ---------------------------------------------------------------------------
# canonical structures

def merge(lst):
    out = []
    for x in lst:
        if x is None:
            continue
        if x[0] == 'chars':
            if not x[1]:
                continue
            if out and out[-1][0] == 'chars':
                out[-1] = ('chars', out[-1][1] + x[1])
                continue
        out.append(x)
    return out


def canon_model(n, par_node):
    k = n['k']
    s = uncodes
    if k == 'chars':
        return ('chars', s(n['name']))
    if k == 'comment':
        return ('comment', s(n['name']))
    if k == 'par':
        return ('specials', '\n\n') if par_node else None
    if k == 'specials':
        return ('specials', s(n['name']))
    if k == 'verb':
        return ('verb', s(n['name']))
    if k == 'group':
        return ('group', s(n['delims']), merge([canon_model(x, par_node) for x in n['body']]))
    if k == 'math':       # (name holds the source span of the formula, used by C12 only)
        return ('math', s(n['delims'][0]), s(n['delims'][1]), merge([canon_model(x, par_node) for x in n['body']]))
    if k == 'macro':
        return ('macro', s(n['name']), [(canon_model(a[0], par_node) if a else None) for a in n['args']])
    if k == 'env':
        return ('env', s(n['name']), [(canon_model(a[0], par_node) if a else None) for a in n['args']],
                merge([canon_model(x, par_node) for x in n['body']]))
    raise ValueError(k)


def canon_impl(n, desc):
    import pylatexenc.latexnodes.nodes as N
    if n is None:
        return None
    if isinstance(n, N.LatexCharsNode):
        return ('chars', ''.join(n.chars.split()))
    if isinstance(n, N.LatexCommentNode):
        return ('comment', n.comment)
    if isinstance(n, N.LatexGroupNode):
        return ('group', n.delimiters[0] + n.delimiters[1], merge([canon_impl(x, desc) for x in (n.nodelist or [])]))
    if isinstance(n, N.LatexMathNode):
        return ('math', n.delimiters[0], n.delimiters[1], merge([canon_impl(x, desc) for x in (n.nodelist or [])]))
    if isinstance(n, N.LatexSpecialsNode):
        return ('specials', n.specials_chars)
    if isinstance(n, N.LatexMacroNode):
        return ('macro', n.macroname, canon_args(n, desc['macros'].get(n.macroname, []), desc))
    if isinstance(n, N.LatexEnvironmentNode):
        e = desc['envs'].get(n.environmentname, dict(args=[], body='nodes'))
        sig = e['args'] if e['body'] != 'legacyverb' else [dict(k='verb')]
        return ('env', n.environmentname, canon_args(n, sig, desc),
                merge([canon_impl(x, desc) for x in (n.nodelist or [])]))
    return ('unknown', type(n).__name__)


def canon_args(n, sig, desc):
    import pylatexenc.latexnodes.nodes as N
    nd = getattr(n, 'nodeargd', None)
    if nd is None or getattr(nd, 'argnlist', None) is None:
        return None if sig else []
    out = []
    for j, a in enumerate(nd.argnlist):
        kind = sig[j]['k'] if j < len(sig) else '?'
        if a is None:
            out.append(None)
        elif kind in ('v', 'verb'):
            # verbatim: the text is kept exactly
            if isinstance(a, N.LatexGroupNode):
                txt = ''.join(getattr(x, 'chars', '?') for x in a.nodelist)
            else:
                txt = getattr(a, 'chars', '?')
            out.append(('verb', txt))
        elif isinstance(a, N.LatexNodeList):
            items = merge([canon_impl(x, desc) for x in a])
            out.append(items[0] if len(items) == 1 else ('list', items))
        else:
            out.append(canon_impl(a, desc))
    return out


class DocConsumer(Consumer):
    def feed(self, rec):
        self.n += 1
        src = uncodes(rec['src'])
        ctx = self.payload['ctx']
        desc = contexts.describe(ctx)
        case = dict(src=src, ctx=ctx)
        i = pc.impl_parse(src, ctx, 'strict', full=True)
        if rec['faulted']:
            self.counters['faulted'] += 1
            self.nontrivial += 1
            self.sample(dict(case, faulted=True), every=2999)
            if i['ok']:
                self.violation('fault-not-rejected', case, detail=dict(impl='accepted'),
                               sig=dict(clause='fault-not-rejected'))
            elif not i.get('parse_error'):
                self.violation('fault-outcome', case, detail=dict(exc=i.get('exc'), msg=i.get('msg')),
                               sig=dict(clause='fault-outcome', exc=i.get('exc')))
            else:
                self.counters['fault_rejected'] += 1
            return
        par_node = '\n\n' in pstate.specials_of(ctx)
        m = merge([canon_model(x, par_node) for x in rec['tree']])
        if len(rec['tree']) >= 2 or any(x['k'] in ('macro', 'env', 'group', 'math') for x in rec['tree']):
            self.nontrivial += 1
        self.sample(dict(case, written=repr(m)[:300]), every=2999)
        if not i['ok']:
            self.violation('well-formed-rejected', dict(case, written=repr(m)[:400]),
                           detail=dict(exc=i.get('exc'), what=i.get('what'), pos=i.get('pos'), msg=i.get('msg')),
                           sig=dict(clause='well-formed-rejected', what=i.get('what') or i.get('exc')))
            return
        got = merge([canon_impl(x, desc) for x in (i['nodelist'] or [])])
        if got == m:
            self.counters['same'] += 1
        else:
            self.violation('structure-differs', dict(case, written=repr(m)[:600]), detail=dict(parsed=repr(got)[:600]),
                           sig=dict(clause='structure-differs'))


# construct sets per run ("sharded by signature") -----------------------------------------

K_SHARDS = [
    dict(macros=['m', 'o'], envs=[], specials=['~'], argless=['z']),
    dict(macros=['s', 'f'], envs=[], specials=['--'], argless=['z']),
    dict(macros=['t', 'q', 'z'], envs=[], specials=[], argless=['z']),
    dict(macros=['\\', 'c'], envs=[], specials=['---', '--'], argless=[]),
    dict(macros=['v', 'r'], envs=[], specials=[], argless=[]),
    dict(macros=['d', 'M'], envs=[], specials=['&'], argless=['z']),
    dict(macros=['m'], envs=['e'], specials=[], argless=[]),
    dict(macros=['o'], envs=['q', 'p'], specials=['~'], argless=[]),
    dict(macros=['A', 'S'], envs=[], specials=[], argless=['z']),
]
KSP_SHARDS = [
    dict(macros=['m', 'o'], envs=['e'], specials=['~~', '!!!'], argless=['z']),
]
D_SHARDS = [
    dict(macros=['textbf', 'frac'], envs=[], specials=['~'], argless=['alpha']),
    dict(macros=['sqrt', 'item'], envs=['itemize'], specials=[], argless=[]),
    dict(macros=['\\', 'section'], envs=[], specials=['--', '---'], argless=[]),
    dict(macros=['ensuremath', 'text', 'verb'], envs=[], specials=[], argless=['alpha']),
    dict(macros=['emph'], envs=['equation', 'verbatim'], specials=['``'], argless=[]),
    dict(macros=['cite', 'mbox'], envs=['enumerate'], specials=["''"], argless=[]),
]
ALL_FEATURES = ['group', 'math', 'display', 'comment', 'emptycomment', 'par', 'space', 'commenteof', 'argtoken', 'bracket']


def jobs(ctxname, shards, maxacts, features, emitfaulted, emitplain, timeout=3000):
    out = []
    d = contexts.describe(ctxname)
    for sh in shards:
        for m in sh['macros'] + sh['argless']:
            if m not in d['macros'] and not (m in sh['argless'] and d['unknown_macro']):
                raise common.MachineryError('macro %r not in context %s' % (m, ctxname))
        fault_envs = sh['envs'][:1] or ([next(iter(sorted(d['envs'])))] if d['envs'] else [])
        fault_envs = [e for e in fault_envs if d['envs'].get(e, {}).get('body') != 'legacyverb'] or \
            [e for e in sorted(d['envs']) if d['envs'][e]['body'] == 'nodes'][:1]
        out.append(dict(payload=dict(ctx=ctxname), main='MC_DocCheck',
                        mc=mc_text(ctxname, sh['macros'], sh['envs'], sh['specials'], sh['argless'], fault_envs, sh.get('discard', ())),
                        cfg=cfg_text(ctxname, maxacts, features, emitfaulted, emitplain),
                        tlc_kw=dict(timeout=timeout, xmx='4g')))
    return out


def run_c02(ctx):
    quick = ctx.tier == 'quick'
    ctx.rule = ('TLC enumerates every derivation of the document writer of <= MaxActs opening actions, per construct set '
                '(two or three macro/environment signatures at a time, over every standard argument type, plus text, '
                'whitespace, paragraph breaks, comments, groups, inline/display math, specials, verbatim); every written '
                'document is parsed strictly by the real parser and the parsed structure must be exactly the written one. '
                'Non-trivial: >= 2 top-level constructs or a construct with children.')
    n = 4 if quick else 5
    for cname, shards in (('k', K_SHARDS), ('default', D_SHARDS), ('ksp', KSP_SHARDS)):
        m = common.run_shards(ctx, ('harness.docwriter', 'DocConsumer'),
                              jobs(cname, shards, n, ALL_FEATURES, False, True), what='DocCheck %s, <= %d actions' % (cname, n))
        ctx.add_merged(m)
        ctx.log('%s: %d documents written, %s' % (cname, m['n'], {k: v for k, v in m['counters'].items() if not k.startswith('vsig')}))
    # deep, narrow derivations: few construct kinds, more actions (nesting of delimited arguments inside each other,
    # bracket text protected by a brace group inside an optional argument, math inside arguments inside environments)
    nd = 7 if quick else 9
    dj = []
    for cname, sh, feats in DEEP:
        dj += jobs(cname, [sh], nd, feats, False, True)
    m = common.run_shards(ctx, ('harness.docwriter', 'DocConsumer'), dj, what='DocCheck deep narrow derivations, <= %d actions' % nd)
    ctx.add_merged(m)
    ctx.log('deep narrow (%d construct sets, <= %d actions): %d documents written, %s' % (
        len(DEEP), nd, m['n'], {k: v for k, v in m['counters'].items() if not k.startswith('vsig')}))
    ctx.exhaustive = True


DEEP = [
    ('k', dict(macros=['o', 'm'], envs=[], specials=[], argless=[]), ['bracket', 'group']),
    ('k', dict(macros=['d', 'o'], envs=[], specials=[], argless=[]), ['bracket', 'math']),
    ('k', dict(macros=['o'], envs=['p'], specials=[], argless=[]), ['bracket', 'group']),
    ('default', dict(macros=['section', 'textbf'], envs=[], specials=[], argless=[]), ['bracket', 'group']),
    ('default', dict(macros=['item', 'sqrt'], envs=['itemize'], specials=[], argless=[]), ['bracket', 'math']),
    ('default', dict(macros=['text', 'ensuremath'], envs=['equation'], specials=[], argless=[]), ['math', 'display', 'textinmath']),
]


def run_fault_injection(ctx):
    quick = ctx.tier == 'quick'
    n = 3 if quick else 4
    feats = ['group', 'math', 'display', 'comment', 'emptycomment', 'space', 'argtoken', 'fault']
    tot = 0
    for cname, shards in (('k', K_SHARDS), ('default', D_SHARDS)):
        m = common.run_shards(ctx, ('harness.docwriter', 'DocConsumer'),
                              jobs(cname, shards, n, feats, True, False),
                              what='DocCheck fault injection %s, <= %d actions' % (cname, n))
        ctx.add_merged(m)
        tot += m['counters'].get('faulted', 0)
        ctx.log('fault injection %s: %d faulted documents, %d rejected' % (
            cname, m['counters'].get('faulted', 0), m['counters'].get('fault_rejected', 0)))
    ctx.notes['fault_injection'] = ('%d documents with one injected unmatched token ({, }, $, \\(, \\), \\[, \\], '
                                    '\\begin{e}, \\end{e}) at every boundary of every written document of <= %d actions; '
                                    'TLC checks FaultRejected on the composition writer x reference parser; the real '
                                    'strict parser must raise LatexWalkerParseError for each' % (tot, n))
    if tot == 0:
        raise common.MachineryError('fault injection produced no documents')

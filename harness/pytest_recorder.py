# -*- coding: utf-8 -*-
"""pytest plugin (lives in /verif, nothing in /repo): runs the repository's own tests with recorders
installed, so that every token-reader call, every top-level parse result and every visitor callback the
tests cause can be validated by TLC against the Tier-A acceptors -- the existing tests exercise much
more than their assertions check.

usage:  VERIF_REC_OUT=<file> PYTHONPATH=/verif:/repo pytest -p harness.pytest_recorder ...
"""
from __future__ import annotations

import json
import os

_TRACES = []          # token-reader traces: dict(s, ev)
_TREES = []           # top-level parse results: TraceTree traces
_MAX_TRACES = 20000
_MAX_EVENTS = 4000


def _proj_token(t):
    arg = t.arg
    if t.tok == 'specials':
        arg = getattr(arg, 'specials_chars', '?')
    if not isinstance(arg, str):
        arg = repr(arg)
    return dict(t=t.tok, arg=[ord(c) for c in arg], pos=t.pos, pos_end=t.pos_end, pre=len(t.pre_space),
                post=len(getattr(t, 'post_space', '') or ''))


def _install():
    import pylatexenc.latexnodes as LN
    from pylatexenc.latexnodes import _tokenreader, LatexWalkerEndOfStream, LatexWalkerTokenParseError
    Base = _tokenreader.LatexTokenReader

    class RecordingTokenReader(Base):
        def __init__(self, s, **kw):
            super(RecordingTokenReader, self).__init__(s, **kw)
            self._rec = dict(s=[ord(c) for c in s], ev=[])
            self._depth = 0
            self._keys = {}
            self._psids = {}
            self._tokps = {}
            self._keep = []
            if len(_TRACES) < _MAX_TRACES and isinstance(s, str):
                _TRACES.append(self._rec)

        def _ps(self, ps):
            k = id(ps)
            if k not in self._psids:
                self._psids[k] = len(self._psids) + 1
                self._keep.append(ps)
            return self._psids[k]

        def _key(self, t):
            k = json.dumps(_proj_token(t), sort_keys=True)
            if k not in self._keys:
                self._keys[k] = len(self._keys) + 1
            return self._keys[k]

        def _log(self, ev):
            if len(self._rec['ev']) < _MAX_EVENTS:
                self._rec['ev'].append(ev)

        def _tokcall(self, kind, fn, parsing_state):
            p0 = self.cur_pos()
            self._depth += 1
            try:
                try:
                    t = fn(parsing_state=parsing_state)
                finally:
                    self._depth -= 1
            except LatexWalkerEndOfStream as e:
                if self._depth == 0:
                    self._log(dict(e='Eos', p0=p0, p1=self.cur_pos(), final=[ord(c) for c in (e.final_space or '')]))
                raise
            except LatexWalkerTokenParseError:
                if self._depth == 0:
                    self._log(dict(e='Err', p0=p0, p1=self.cur_pos()))
                raise
            if self._depth == 0:
                ps = self._ps(parsing_state)
                self._tokps[id(t)] = ps
                self._keep.append(t)
                self._log(dict(e=kind, p0=p0, p1=self.cur_pos(), pos=t.pos, pos_end=t.pos_end,
                               pre=[ord(c) for c in t.pre_space], key=self._key(t), ps=ps))
            return t

        def peek_token(self, parsing_state):
            return self._tokcall('Peek', super(RecordingTokenReader, self).peek_token, parsing_state)

        def next_token(self, parsing_state):
            return self._tokcall('Next', super(RecordingTokenReader, self).next_token, parsing_state)

        def _jump(self, fn, *a, **kw):
            self._depth += 1
            try:
                r = fn(*a, **kw)
            finally:
                self._depth -= 1
            if self._depth == 0:
                self._log(dict(e='Jump', p1=self.cur_pos()))
            return r

        def move_to_token(self, tok, rewind_pre_space=True):
            if self._depth == 0 and rewind_pre_space and id(tok) in self._tokps and tok.pre_space is not None:
                self._depth += 1
                try:
                    super(RecordingTokenReader, self).move_to_token(tok, rewind_pre_space=rewind_pre_space)
                finally:
                    self._depth -= 1
                self._log(dict(e='MoveTo', p1=self.cur_pos(), pos=tok.pos, prelen=len(tok.pre_space),
                               key=self._key(tok), ps=self._tokps[id(tok)]))
                return
            return self._jump(super(RecordingTokenReader, self).move_to_token, tok, rewind_pre_space=rewind_pre_space)

        def move_past_token(self, tok, **kw):
            return self._jump(super(RecordingTokenReader, self).move_past_token, tok, **kw)

        def move_to_pos_chars(self, pos):
            return self._jump(super(RecordingTokenReader, self).move_to_pos_chars, pos)

        def skip_space_chars(self, parsing_state):
            return self._jump(super(RecordingTokenReader, self).skip_space_chars, parsing_state)

        def next_chars(self, num_chars, parsing_state):
            return self._jump(super(RecordingTokenReader, self).next_chars, num_chars, parsing_state)

    # ---- top-level parse results (for the Cover acceptor of C01) ----
    from pylatexenc.latexwalker import LatexWalker
    from pylatexenc.latexnodes.parsers import LatexGeneralNodesParser
    from pylatexenc.latexnodes.nodes import LatexNodeList
    from . import proj
    orig_parse_content = LatexWalker.parse_content
    depth = [0]

    def parse_content(self, parser, token_reader=None, parsing_state=None, open_context=None):
        depth[0] += 1
        try:
            res = orig_parse_content(self, parser, token_reader=token_reader, parsing_state=parsing_state,
                                     open_context=open_context)
        finally:
            depth[0] -= 1
        try:
            if depth[0] == 0 and token_reader is None and type(parser) is LatexGeneralNodesParser \
               and parser.stop_token_condition is None and parser.stop_nodelist_condition is None \
               and isinstance(res[0], LatexNodeList) and isinstance(self.s, str) and len(_TREES) < 5000 \
               and (parsing_state is None or not parsing_state.in_math_mode):
                nl = [n for n in res[0] if n is not None]
                kind = 'cover_tolerant' if self.tolerant_parsing else 'cover_strict'
                tr = dict(kind=kind, s=[ord(c) for c in self.s], ns=[proj.proj_node_full(n) for n in nl])
                if kind == 'cover_strict':
                    tr['verbs'] = [[ord(c) for c in n.latex_verbatim()] for n in nl]
                _TREES.append(tr)
        except Exception:  # noqa  (recording must never disturb the test)
            pass
        return res
    LatexWalker.parse_content = parse_content

    RecordingTokenReader.__name__ = 'LatexTokenReader'
    LN.LatexTokenReader = RecordingTokenReader


def pytest_configure(config):
    _install()


def pytest_unconfigure(config):
    out = os.environ.get('VERIF_REC_OUT')
    if out:
        with open(out, 'w') as f:
            json.dump([t for t in _TRACES if t['ev']], f)
        with open(out + '.trees', 'w') as f:
            json.dump(_TREES, f)

# -*- coding: utf-8 -*-
"""C10 -- each node's math/text mode is the one implied by the enclosing structure.

Tier A: spec/Modes.tla (ModesOK): a stack of expectations handed down the tree --
math nodes put their contents in math mode with their opening delimiter (inline iff
the delimiter is $ or \\(), arguments of the documented text-like macros are in text
mode, the argument of \\ensuremath and the bodies of the documented math environments
are in math mode, everything else inherits.  The lists are frozen from the
documentation, not read from the code.  TLC checks ModesOK on every tree of the
reference parser (which threads the mode through enter/leave-math deltas like the
code) for all strings over the math alphabet and over the context alphabets.
Binding: real trees (which carry in_math_mode, math_mode_delimiter, displaytype,
delimiters) must equal the model's; deviating and sampled real trees are judged by
TLC with ModesOK (TraceTree, kind "modes").
"""
from __future__ import annotations

from . import common, parsecommon as pc, proj
from .common import Consumer, uncodes, codes

LEVEL = 'model_checking'

MATH_ATOMS = ['$', 'a', '{', '}', ' ', '\\(', '\\)', '\\[', '\\]']
MATH_ATOMS_D = MATH_ATOMS + ['\\text', '\\ensuremath', '\\begin{equation}', '\\end{equation}', '\\textbf', '\\frac']
MATH_ATOMS_K = MATH_ATOMS + ['\\t', '\\q', '\\begin{q}', '\\end{q}', '\\m', '\\begin{e}', '\\end{e}', '\\A', '\\S', '[', ']', '\\X', '%']


class ModesConsumer(Consumer):
    def __init__(self, payload):
        super().__init__(payload)
        self.traces = []
        self.cfg = pc.modes_cfg_json(payload['ctx'], payload.get('st_kw'))

    def keep(self, case, tr, reason):
        if len(self.traces) < 5000:
            self.traces.append((case, tr, reason))
        elif reason == 'deviation':
            self.counters['deviations_not_kept'] += 1

    def feed(self, rec):
        self.n += 1
        s = uncodes(rec['s'])
        ctx = self.payload['ctx']
        for mode, res in rec['res'].items():
            m = pc.norm_model(res)
            i = pc.impl_parse(s, ctx, mode, st_kw=self.payload.get('st_kw'))
            case = dict(s=s, ctx=ctx, mode=mode, st_kw=self.payload.get('st_kw'))
            if not i['ok'] or i['v']['vk'] != 'list':
                self.counters['impl_no_tree:' + mode] += 1
                continue
            if '$' in s or '\\(' in s or '\\[' in s or 'equation' in s or '{q}' in s:
                self.nontrivial += 1
            tr = dict(kind='modes', s=rec['s'], ns=i['v']['ns'], cfg=self.cfg)
            if m['ok'] and m['v'] == i['v']:
                self.counters['same:' + mode] += 1
                if self.counters['same:' + mode] % self.payload.get('sample_every', 97) == 0:
                    self.keep(case, tr, 'sample')
            else:
                self.counters['deviates:' + mode] += 1
                self.keep(case, tr, 'deviation')
        self.sample(dict(s=s, ctx=ctx), every=9973)

    def result(self):
        r = super().result()
        r['extra'] = dict(traces=self.traces)
        return r


DOC_SHARDS = [
    ('default', dict(macros=['text', 'ensuremath'], envs=['equation'], specials=[], argless=[])),
    ('default', dict(macros=['textbf', 'frac'], envs=['align'], specials=[], argless=['alpha'])),
    ('k', dict(macros=['t', 'q', 'A'], envs=['q'], specials=[], argless=['z'])),
    ('k', dict(macros=['S', 'm'], envs=['e'], specials=[], argless=['X'])),
]
DOC_FEATURES = ['math', 'display', 'group', 'space', 'textinmath']


def doc_jobs(maxacts):
    from . import docwriter
    jobs = []
    for cname, sh in DOC_SHARDS:
        for j in docwriter.jobs(cname, [sh], maxacts, DOC_FEATURES, False, True):
            j['main'] = 'MC_DocModes'
            j['mc'] = j['mc'].replace('MODULE MC_DocCheck', 'MODULE MC_DocModes').replace('EXTENDS DocCheck', 'EXTENDS DocModes').replace(
                '====', 'ModesCfgDef == %s\n====' % pc.modes_cfg_tla(cname))
            j['cfg'] = j['cfg'].replace('INVARIANT Emit\n', 'INVARIANT EmitModes\nINVARIANT WrittenModesOK\n').replace(
                'SPECIFICATION Spec', '  ModesCfg <- ModesCfgDef\nSPECIFICATION Spec')
            j['payload'] = dict(ctx=cname, st_kw={}, sample_every=97)
            jobs.append(j)
    return jobs


def run_documents(ctx):
    from .c01 import validate
    quick = ctx.tier == 'quick'
    n = 5 if quick else 6
    m = common.run_shards(ctx, ('harness.c10', 'ModesConsumer'), doc_jobs(n), what='DocModes: written documents <= %d actions (ModesOK)' % n)
    ctx.add_merged(m)
    ctx.log('written documents with text-in-math / math-in-text-in-math, <= %d actions: %d documents; %s' % (
        n, m['n'], {k: v for k, v in m['counters'].items() if ':' in k}))
    validate(ctx, m)


def run(ctx):
    from .c01 import validate
    quick = ctx.tier == 'quick'
    ctx.rule = ('TLC parses every string of <= K atoms over {$, a, {, }, space, \\(, \\), \\[, \\]} (K=6 quick, 7 thorough) and '
                'of <= 4/5 atoms over that alphabet extended with text-like macros, \\ensuremath, math environments, under the '
                'default database and the model context, also starting inside math mode; ModesOK is checked on the model trees, '
                'the real trees must equal them, deviating/sampled real trees are judged by TLC with ModesOK. Non-trivial: the '
                'string contains a math delimiter or math environment.')
    plans = [('default', MATH_ATOMS, 5 if quick else 7, ['strict', 'tolerant'] if quick else ['strict'], None),
             ('default', MATH_ATOMS_D, 4 if quick else 5, ['strict', 'tolerant'], None),
             ('k', MATH_ATOMS_K, 4 if quick else 5, ['strict'], None),
             ('default', MATH_ATOMS_D, 3 if quick else 4, ['strict'], dict(in_math=True, mdelim='$')),
             ('default', MATH_ATOMS_D, 3 if quick else 4, ['strict'], dict(in_math=True, mdelim=''))]
    if not quick:
        plans.append(('default', MATH_ATOMS, 6, ['strict', 'tolerant'], None))
    # configured delimiter lists: control-word delimiters next to the standard ones
    custom = dict(inline=[('$', '$'), ('\\startf', '\\stopf')], display=[('\\[', '\\]'), ('\\begin{math}', '\\end{math}')])
    plans.append(('default', ['$', 'a', '{', '}', ' ', '\\[', '\\]', '\\startf', '\\stopf', '\\begin{math}', '\\end{math}', '\\text'],
                  4 if quick else 5, ['strict', 'tolerant'], custom))
    pc.SOUP_VOLUME.update(num=150 if quick else 1500, nseeds=8 if quick else 16, seed=ctx.seed)
    plans += [('default', MATH_ATOMS_D, pc.SOUP + (10 if quick else 16), ['strict', 'tolerant'], None),
              ('k', MATH_ATOMS_K, pc.SOUP + (10 if quick else 16), ['strict', 'tolerant'], None)]
    for cname, atoms, K, modes, st_kw in plans:
        invs = ['ModelModes', 'NoNonterm'] + (['ModelModesTolerant'] if 'tolerant' in modes else [])
        jobs = pc.export_jobs(atoms, cname, K, modes, invs, payload=dict(sample_every=197 if quick else 1997),
                              timeout=6000, st_kw=st_kw)
        m = common.run_shards(ctx, ('harness.c10', 'ModesConsumer'), jobs,
                              what='ParseRun %s %s %d atoms %s (ModesOK)' % (cname, pc.kdesc(K), len(atoms), st_kw or ''))
        ctx.add_merged(m)
        ctx.log('%s %s/%d atoms %s: %d strings; %s' % (cname, pc.kdesc(K), len(atoms), st_kw or '', m['n'],
                {k: v for k, v in m['counters'].items() if ':' in k}))
        validate(ctx, m)
    run_documents(ctx)
    ctx.exhaustive = True
    ctx.assumptions += ['the lists of text-like macros and math environments are frozen from the documentation in '
                        'harness/parsecommon.py']


def replay(case):
    c = case['case']
    i = pc.impl_parse(c['s'], c['ctx'], c['mode'], st_kw=c.get('st_kw'))
    print('input', repr(c['s']), c['ctx'], c['mode'])
    if not i['ok'] or i['v']['vk'] != 'list':
        print('no tree')
        return True
    tr = dict(kind='modes', s=codes(c['s']), ns=i['v']['ns'], cfg=pc.modes_cfg_json(c['ctx'], c.get('st_kw')))
    ctx = common.Ctx('C10', 'quick', 0)
    f, d = common.validate_traces(ctx, 'TraceTree', [tr])
    print('acceptor:', 'accepts' if f[0] else 'rejects %r' % d.get(0))
    return f[0]

# -*- coding: utf-8 -*-
"""C14 -- context database lookups follow category order under every history.

spec/ContextDb.tla: Tier B keeps both bookkeeping structures of the code
(category list + per-category dicts, and the chain of dicts that lookups
consult); Tier A is defined on the reported category order only.

1. TLC, exhaustively over all histories up to the bound (VIEW hides the
   history variables): intended model => LookupFollowsOrder, SpecialsLongest,
   OthersUntouched, RaisesChangeNothing, FrozenRefuses, DerivableAgain.
2. Sensitivity controls: each `as_implemented` variant must yield a TLC
   counterexample.
3. Binding S->C (exact, verdict rule 2): TLC prints every distinct abstract
   state with a shortest history leading to it; the history is replayed on real
   LatexContextDb objects once per kind (macros, environments, specials) and
   after it every live object is asked for its categories, every name, the
   specials test and the frozen flag; every step's raise/no-raise must agree.
4. Random long histories (tlc -simulate) replayed the same way.
"""
from __future__ import annotations

from . import common
from .common import Consumer, guarded

LEVEL = 'model_checking'

CFG = """CONSTANTS
  Cats = {%(cats)s}
  Names = {"x","y"}
  MaxObj = %(maxobj)d
  MaxSteps = %(steps)d
  NsChoices = {%(ns)s}
  KeepChoices = {%(keep)s}
  ExclChoices = {%(excl)s}
  VInsert = "%(vinsert)s"
  VFilter = "%(vfilter)s"
  EmitMode = "%(emit)s"
SPECIFICATION Spec
%(view)s
INVARIANT LookupFollowsOrder
INVARIANT SpecialsLongest
INVARIANT Emit
PROPERTY OthersUntouched
PROPERTY RaisesChangeNothing
PROPERTY FrozenRefuses
PROPERTY DerivableAgain
CHECK_DEADLOCK FALSE
"""


def cfg(cats=('A', 'B', 'C'), maxobj=3, steps=4, ns='{}, {"x"}, {"y"}, {"x","y"}', keep='{}, {"A"}, {"A","B"}',
        excl='{}, {"B"}', vinsert='intended', vfilter='intended', emit='none', view='VIEW View'):
    return CFG % dict(cats=', '.join('"%s"' % c for c in cats), maxobj=maxobj, steps=steps, ns=ns, keep=keep,
                      excl=excl, vinsert=vinsert, vfilter=vfilter, emit=emit, view=view)


KINDS = ('macros', 'environments', 'specials')
AUTO_PREFIX = '__lctxdb_cat_'


def _mkspec(kind, name):
    from pylatexenc.macrospec import MacroSpec, EnvironmentSpec, SpecialsSpec
    if kind == 'macros':
        return MacroSpec(name)
    if kind == 'environments':
        return EnvironmentSpec(name)
    return SpecialsSpec({'x': '-', 'y': '--', 'z': '---'}[name])


def _realname(kind, n):
    return {'x': '-', 'y': '--', 'z': '---'}[n] if kind == 'specials' else n


def _cat(c):
    return None if c == '_none_' else c


def replay_history(hist, kind):
    """Replay a model history on real objects.  Returns (observations, raise_log) where observations
    is {objid: dict} in the projection of ContextDb!Observe."""
    from pylatexenc.macrospec import LatexContextDb
    other = [k for k in KINDS if k != kind]
    objs = {1: LatexContextDb()}
    ids = {}       # id(spec object) -> model spec id
    keepalive = []
    unk = {}

    def unkspec(u):
        if u not in unk:
            unk[u] = _mkspec(kind, 'x')
            ids[id(unk[u])] = u
            keepalive.append(unk[u])
        return unk[u]

    def mkdefs(stepno, ns):
        out = []
        for n in ns:
            sp = _mkspec(kind, n)
            ids[id(sp)] = '%d%s' % (stepno, n)
            keepalive.append(sp)
            out.append(sp)
        return out

    raises = []
    for stepno, a in enumerate(hist, start=1):
        exc = 'no'
        try:
            o = objs[a['o']]
            if a['a'] == 'AddCat':
                kw = {kind: mkdefs(stepno, a['ns'])}
                m = a['mode']
                if m[0] == 'prepend':
                    kw['prepend'] = True
                elif m[0] == 'before':
                    kw['insert_before'] = m[1]
                elif m[0] == 'after':
                    kw['insert_after'] = m[1]
                o.add_context_category(_cat(a['cat']), **kw)
            elif a['a'] == 'Freeze':
                o.freeze()
            elif a['a'] == 'SetUnknown':
                getattr(o, {'macros': 'set_unknown_macro_spec', 'environments': 'set_unknown_environment_spec',
                            'specials': 'set_unknown_specials_spec'}[kind])(unkspec(a['u']))
            elif a['a'] == 'Extended':
                kw = {kind: mkdefs(stepno, a['ns'])}
                if a['u'] != 'keep':
                    kw['unknown_%s_spec' % kind.rstrip('s').replace('special', 'specials')] = unkspec(a['u'])
                new = o.extended_with(category=_cat(a['cat']), **kw)
                objs[a['to']] = new
            elif a['a'] == 'Filtered':
                new = o.filtered_context(keep_categories=list(a['keep']), exclude_categories=list(a['excl']),
                                         keep_which=[kind] if a['kw'] else [other[0]])
                objs[a['to']] = new
            else:
                raise common.MachineryError('unknown action %r' % (a,))
        except (RuntimeError, ValueError, TypeError, KeyError, AttributeError, IndexError) as e:
            exc = type(e).__name__
        raises.append(exc)

    def sid(spec):
        if spec is None:
            return 'none'
        return ids.get(id(spec), 'FOREIGN')

    obs = {}
    for i, o in objs.items():
        get = getattr(o, {'macros': 'get_macro_spec', 'environments': 'get_environment_spec',
                          'specials': 'get_specials_spec'}[kind])
        cats = ['_auto' + c[len(AUTO_PREFIX):] if c.startswith(AUTO_PREFIX) else c for c in o.categories()]
        d = dict(cats=cats, ans={n: sid(get(_realname(kind, n))) for n in ('x', 'y')}, frozen=bool(o.frozen))
        if kind == 'specials':
            sp1 = o.test_for_specials('-', 0)
            sp2 = o.test_for_specials('a--', 1)
            d['sp1'] = 'nomatch' if sp1 is None else sid(sp1)
            d['sp2'] = 'nomatch' if sp2 is None else sid(sp2)
        obs[i] = d
    return obs, raises


def compare(rec, kind):
    """Returns None if the implementation agrees with the model, else a detail dict."""
    hist = rec['hist']
    st, val = guarded(replay_history, hist, kind)
    if st != 'ok':
        return dict(status=st, exc=repr(val))
    obs, raises = val
    for k, (a, r) in enumerate(zip(hist, raises)):
        exp = a.get('raises', 'no')
        if (exp == 'no') != (r == 'no') or (exp != 'no' and r != exp):
            return dict(what='raise', step=k + 1, action=a, model=exp, impl=r)
    mobs = rec['obs']
    for idx, m in enumerate(mobs, start=1):
        if m.get('free'):
            if idx in obs:
                return dict(what='object-exists', obj=idx)
            continue
        if idx not in obs:
            return dict(what='object-missing', obj=idx)
        i = obs[idx]
        for key in ('cats', 'ans', 'frozen') + (('sp1', 'sp2') if kind == 'specials' else ()):
            if m[key] != i[key]:
                return dict(what=key, obj=idx, model=m[key], impl=i[key])
    return None


def _sig(detail, hist):
    s = dict(clause=detail.get('what', 'outcome'))
    if detail.get('what') == 'raise':
        s['action'] = detail['action']['a']
        s['impl'] = detail['impl']
    last = hist[-1] if hist else {}
    s['uses_insert_before_after'] = any(a['a'] == 'AddCat' and a['mode'][0] in ('before', 'after') for a in hist)
    s['uses_auto_category'] = any(a.get('cat') == '_none_' for a in hist)
    return s


class HistConsumer(Consumer):
    def feed(self, rec):
        self.n += 1
        hist = rec['hist']
        if len(hist) >= 2:
            self.nontrivial += 1
        self.sample(dict(history=hist, expected=rec['obs']), every=4999)
        for kind in KINDS:
            self.counters['replays'] += 1
            d = compare(rec, kind)
            if d is not None:
                self.violation(d.get('what', 'outcome'), dict(kind=kind, hist=hist, obs=rec['obs']), detail=d,
                               sig=_sig(d, hist))
                return


def run(ctx):
    quick = ctx.tier == 'quick'
    ctx.rule = ('TLC enumerates every history of add_context_category (4 placements, named and anonymous), '
                'set_unknown, freeze, filtered_context, extended_with up to the step bound over 2-3 category names, '
                '2 entry names, <=3 objects; every distinct abstract state is printed with a shortest history and that '
                'history is replayed on real LatexContextDb objects for macros, environments and specials; '
                'non-trivial: history of >= 2 steps.')
    # 1. design-level check, intended model, larger universe (no emission)
    # (thorough: 5 steps over two named categories -- with three the state space exceeds what fits in the time budget)
    r = common.run_tlc('ContextDb', cfg(steps=4, maxobj=3) if quick else cfg(cats=('A', 'B'), steps=5, maxobj=3),
                       workers=common.NPROC, timeout=3000, xmx='12g')
    ctx.add_tlc(r, 'ContextDb intended: all properties, histories <= %d' % (4 if quick else 5))
    common.tlc_must_pass(r, 'ContextDb intended')
    ctx.log('intended model: %d states generated, %d distinct' % (r.generated, r.distinct))
    # 2. sensitivity controls
    r2 = common.run_tlc('ContextDb', cfg(steps=3, maxobj=2, vinsert='as_implemented'), workers=4, timeout=300)
    ctx.add_tlc(r2, 'control: VInsert=as_implemented')
    ctx.control('as_implemented insertion index violates LookupFollowsOrder',
                r2.violated == 'LookupFollowsOrder', str(r2.violated))
    r3 = common.run_tlc('ContextDb', cfg(steps=3, maxobj=2, vfilter='as_implemented'), workers=4, timeout=300)
    ctx.add_tlc(r3, 'control: VFilter=as_implemented')
    ctx.control('as_implemented filtering of anonymous categories violates DerivableAgain',
                r3.violated is not None and 'DerivableAgain' in (r3.violated + r3.trace), str(r3.violated))
    # 3. S->C: every distinct state with a shortest history
    steps = 3 if quick else 4
    jobs = [dict(main='ContextDb', cfg=cfg(cats=('A', 'B'), steps=steps, maxobj=3, emit='states',
                                          keep='{}, {"A"}', view='VIEW ViewLast' if quick else 'VIEW View'),
                 tlc_kw=dict(timeout=1500, workers=1, xmx='6g'))]
    m = common.run_dispatch(ctx, ('harness.c14', 'HistConsumer'), jobs[0], what='ContextDb S->C states')
    ctx.add_merged(m)
    ctx.log('S->C exhaustive: %d histories replayed x3 kinds' % m['n'])
    # 3b. longer histories over a narrow universe (one named category, definitions {} or {x}, no filtering choices):
    #     anonymous categories that define nothing, frozen and extended again
    nsteps = 4 if quick else 5
    deep = dict(main='ContextDb', cfg=cfg(cats=('A',), steps=nsteps, maxobj=3, emit='states', ns='{}, {"x"}', keep='{}',
                                         excl='{}', view='VIEW ViewLast'),
                tlc_kw=dict(timeout=1500, workers=1, xmx='6g'))
    md = common.run_dispatch(ctx, ('harness.c14', 'HistConsumer'), deep, what='ContextDb S->C states, narrow universe, <= %d steps' % nsteps)
    ctx.add_merged(md)
    ctx.log('S->C narrow universe, <= %d steps: %d histories replayed x3 kinds' % (nsteps, md['n']))
    # 4. random long histories
    n_sim = 100 if quick else 1500   # TLC checks (prints) every generated successor: ~900 records per trace
    sim = dict(main='ContextDb', cfg=cfg(steps=8 if quick else 10, maxobj=3, emit='states', view=''),
               tlc_kw=dict(timeout=120 if quick else 900, workers=1, simulate='num=%d' % n_sim, depth=12,
                           seed=ctx.seed % (2 ** 31), xmx='4g'))
    m2 = common.run_dispatch(ctx, ('harness.c14', 'HistConsumer'), sim, what='ContextDb S->C simulate',
                             allow_timeout=True)
    ctx.add_merged(m2)
    ctx.log('S->C simulate: %d history prefixes replayed' % m2['n'])
    ctx.exhaustive = True
    ctx.assumptions += ['one generic kind in the model, replayed for macros, environments and specials',
                        'spec objects are identified by Python identity']


def replay(case):
    c = case['case']
    rec = dict(hist=c['hist'], obs=c['obs'])
    d = compare(rec, c['kind'])
    print('history:')
    for a in c['hist']:
        print('  ', a)
    print('disagreement:', d)
    return d is None

# -*- coding: utf-8 -*-
"""C15 -- \\input never reads outside the configured directory in strict mode.

spec/InputFile.tla: file-system layouts (files, sibling-prefix directory,
symlinks in both directions, names that exist only with an extension) x
requests (relative/absolute, '..', '.', link names, with/without extension).
TLC checks NeverOutside and InsideIsRead on the intended resolution algorithm
for every (layout, base, request), and must find a counterexample for the
as_implemented variant (control).  Binding S->C: every (layout, base, request)
TLC prints is executed against real directories through
LatexNodes2Text.read_input_file and latex_to_text('\\input{..}'); the verdict
is Tier A applied to the identity of the file whose content came back.
"""
from __future__ import annotations

import atexit
import os
import shutil
import tempfile

from . import common
from .common import Consumer, guarded

LEVEL = 'model_checking'

OPTIONAL = ["in", "inl", "g", "sib", "sec", "lnkf", "lnkd", "back", "lnkx", "lnkl", "cap", "lnkz"]
COMPS_ALL = ["in", "in.tex", "g", "sub", "deep", "..", ".", "dir", "dir2", "sib", "out", "secret",
             "secret.tex", "lnkf", "lnkd", "back", "lnk", "lnk.tex", "dlink", "lnk2", "lnk2.latex", "Dir", "cap", "lnkz"]

MC = """---- MODULE MC_InputFile ----
EXTENDS InputFile
ShardDef == %(shard)s
====
"""
CFG = """CONSTANTS
  Toggles = {%(toggles)s}
  FixedOn = {%(fixed)s}
  Comps = {%(comps)s}
  MaxComps = %(maxcomps)d
  Bases = {%(bases)s}
  AllowAbs = %(abs)s
  Variant = "%(variant)s"
  ShardBits <- ShardDef
SPECIFICATION Spec
INVARIANT NeverOutside
INVARIANT InsideIsRead
%(emit)s
CHECK_DEADLOCK FALSE
"""


def q(xs):
    return ', '.join('"%s"' % x for x in xs)


def marker(path):
    return 'F' + ''.join(c for c in ''.join(path) if c.isalnum())


FILES = {
    'in': ('p', 'q', 'dir', 'in.tex'), 'inl': ('p', 'q', 'dir', 'in.latex'), 'g': ('p', 'q', 'dir', 'g'),
    'sib': ('p', 'q', 'dir2', 'sib.tex'), 'sec': ('p', 'q', 'out', 'secret.tex'), 'cap': ('p', 'q', 'Dir', 'cap.tex'),
}
LINKS = {
    'lnkf': (('p', 'q', 'dir', 'lnkf'), ('p', 'q', 'out', 'secret.tex')),
    'lnkd': (('p', 'q', 'dir', 'lnkd'), ('p', 'q', 'out')),
    'back': (('p', 'q', 'out', 'back'), ('p', 'q', 'dir')),
    'lnkx': (('p', 'q', 'dir', 'lnk.tex'), ('p', 'q', 'out', 'secret.tex')),
    'lnkl': (('p', 'q', 'dir', 'lnk2.latex'), ('p', 'q', 'out', 'secret.tex')),
    'lnkz': (('p', 'q', 'dir', 'lnkz'), ('p', 'q', 'dir', 'sub', 'deeper')),
}
ALWAYS_FILE = ('p', 'q', 'dir', 'sub', 'deep.tex')
MARK2PATH = {marker(p): list(p) for p in list(FILES.values()) + [ALWAYS_FILE]}

_layout_cache = {}
_proc_root = [None]


def _cleanup():
    if _proc_root[0]:
        shutil.rmtree(_proc_root[0], ignore_errors=True)


def layout_dir(scratch, layout):
    key = frozenset(layout)
    if key in _layout_cache:
        return _layout_cache[key]
    if _proc_root[0] is None:
        _proc_root[0] = tempfile.mkdtemp(prefix='w%d_' % os.getpid(), dir=scratch)
        atexit.register(_cleanup)
    root = tempfile.mkdtemp(prefix='L', dir=_proc_root[0])
    J = lambda p: os.path.join(root, *p)
    for d in (('p', 'q', 'dir', 'sub', 'deeper'), ('p', 'q', 'dir2'), ('p', 'q', 'out'), ('p', 'q', 'Dir')):
        os.makedirs(J(d))
    with open(J(ALWAYS_FILE), 'w') as f:
        f.write(marker(ALWAYS_FILE))
    os.symlink(J(('p', 'q', 'dir')), J(('p', 'q', 'dlink')))
    for name, path in FILES.items():
        if name in key:
            with open(J(path), 'w') as f:
                f.write(marker(path))
    for name, (path, target) in LINKS.items():
        if name in key:
            os.symlink(J(target), J(path))
    _layout_cache[key] = root
    return root


def inside_base(path):
    return path[:3] == ['p', 'q', 'dir']


def judge(model_res, content):
    """Tier A on the identity of the returned file.  Returns (verdict, info): verdict in
    'same' | 'drift' | 'outside' | 'inside-not-read' | 'garbled'."""
    content = content.strip()
    got = None
    if content != '':
        if content not in MARK2PATH:
            return 'garbled', content
        got = MARK2PATH[content]
    exp = None if model_res == ['NONE'] else model_res
    if got == exp:
        return 'same', None
    if got is not None and not inside_base(got):
        return 'outside', got
    if exp is not None and inside_base(exp) and got is None:
        return 'inside-not-read', exp
    return 'drift', got


class FsConsumer(Consumer):
    def feed(self, rec):
        from pylatexenc.latex2text import LatexNodes2Text
        self.n += 1
        root = layout_dir(self.payload['scratch'], rec['layout'])
        base = os.path.join(root, 'p', 'q', rec['base'])
        comps = rec['req']['comps']
        fn = '/'.join(comps)
        if rec['req']['abs']:
            fn = root + '/' + fn
        case = dict(layout=sorted(rec['layout']), base=rec['base'], request=('ABS:' if rec['req']['abs'] else '') + '/'.join(comps),
                    model=rec['result'])
        if rec['result'] != ['NONE'] or '..' in comps or rec['req']['abs']:
            self.nontrivial += 1
        self.sample(case, every=9973)

        def call_direct():
            l2t = LatexNodes2Text()
            l2t.set_tex_input_directory(base)
            return l2t.read_input_file(fn)

        def call_input():
            l2t = LatexNodes2Text()
            l2t.set_tex_input_directory(base)
            return l2t.latex_to_text('\\input{%s}' % fn, tolerant_parsing=False)
        calls = [('read_input_file', call_direct)]
        if self.n % 4 == 0 or rec['result'] != ['NONE']:
            calls.append(('latex_to_text', call_input))
        for name, fnc in calls:
            st, val = guarded(fnc)
            self.counters['calls'] += 1
            if st != 'ok':
                self.violation('outcome', dict(case, via=name), detail=dict(status=st, exc=repr(val)),
                               sig=dict(clause='outcome', exc=type(val).__name__))
                return
            verdict, info = judge(rec['result'], val)
            self.counters[verdict] += 1
            if verdict == 'drift':
                self.add_drift(dict(case, via=name), detail=info)
            elif verdict != 'same':
                self.violation(verdict, dict(case, via=name), detail=dict(returned=info, content=val[:60]),
                               sig=dict(clause=verdict,
                                        mechanism=('sibling-prefix' if info and info[:3] == ['p', 'q', 'dir2'] else
                                                   'extension-after-check' if verdict == 'outside' else verdict)))
                return


HIST_MC = """---- MODULE MC_InputHist ----
EXTENDS InputHist
ShardDef == [x \\in {} |-> TRUE]
HReqsDef == {%(reqs)s}
====
"""
HIST_CFG = """CONSTANTS
  Toggles = {}
  FixedOn = {}
  Comps = {}
  MaxComps = 1
  Bases = {"dir"}
  AllowAbs = FALSE
  Variant = "intended"
  ShardBits <- ShardDef
  HLayout = {%(layout)s}
  HReqs <- HReqsDef
  HBases = {"dir", "dlink", "dir2"}
  MaxLen = %(maxlen)d
  HVariant = "%(variant)s"
SPECIFICATION HSpec
INVARIANT StrictReadsSafe
INVARIANT HistoryIndependent
%(emit)s
CHECK_DEADLOCK FALSE
"""
HIST_LAYOUT = ["in", "g", "sib", "sec", "lnkf", "lnkd", "lnkx"]
HIST_REQS = [["in"], ["..", "out", "secret"], ["lnkf"], ["lnk"], ["..", "dir2", "sib"], ["sub", "deep"], ["lnkd", "secret.tex"]]


class HistConsumer(Consumer):
    """one LatexNodes2Text object per history; every read is judged against the model's answer"""

    def feed(self, rec):
        from pylatexenc.latex2text import LatexNodes2Text
        hist = rec['hist']
        self.n += 1
        root = layout_dir(self.payload['scratch'], HIST_LAYOUT)
        l2t = LatexNodes2Text()
        # the initial configuration is the one recorded with the first event (a "set" is applied, a "read" needs it first)
        cur = None
        case = dict(layout=HIST_LAYOUT, history=[(h['op'], h['base'], h['strict'], '/'.join(h['req']['comps'])) for h in hist])
        if sum(1 for h in hist if h['op'] == 'set') >= 1 and sum(1 for h in hist if h['op'] == 'read') >= 2:
            self.nontrivial += 1
        self.sample(case, every=4999)
        for k, h in enumerate(hist):
            conf = (h['base'], h['strict'])
            if conf != cur:
                l2t.set_tex_input_directory(os.path.join(root, 'p', 'q', h['base']), strict_input=h['strict'])
                cur = conf
            if h['op'] != 'read':
                continue
            fn = '/'.join(h['req']['comps'])
            via = 'read_input_file' if (self.n + k) % 3 else 'latex_to_text'
            if via == 'read_input_file':
                st, val = guarded(l2t.read_input_file, fn)
            else:
                st, val = guarded(l2t.latex_to_text, '\\input{%s}' % fn, tolerant_parsing=False)
            self.counters['calls'] += 1
            if st != 'ok':
                self.violation('outcome', dict(case, step=k + 1), detail=dict(status=st, exc=repr(val)), sig=dict(clause='outcome'))
                return
            content = val.strip()
            got = MARK2PATH.get(content) if content else None
            if content and got is None:
                self.violation('garbled', dict(case, step=k + 1), detail=dict(content=val[:60]), sig=dict(clause='garbled'))
                return
            exp = None if h['res'] == ['NONE'] else h['res']
            if got == exp:
                self.counters['same'] += 1
                continue
            basepath = ['p', 'q', 'dir'] if h['base'] in ('dir', 'dlink') else ['p', 'q', h['base']]
            if h['strict'] and got is not None and got[:len(basepath)] != basepath:
                self.violation('outside', dict(case, step=k + 1, via=via), detail=dict(returned=got, model=h['res']),
                               sig=dict(clause='outside', mechanism='history'))
                return
            if h['strict']:
                self.violation('history-dependent-read', dict(case, step=k + 1, via=via), detail=dict(returned=got, model=h['res']),
                               sig=dict(clause='history-dependent-read'))
                return
            self.add_drift(dict(case, step=k + 1, via=via), detail=dict(returned=got, model=h['res']))


def run_histories(ctx, scratch):
    quick = ctx.tier == 'quick'
    reqs = ', '.join('[abs |-> FALSE, comps |-> <<%s>>]' % q(r) for r in HIST_REQS)
    mc = HIST_MC % dict(reqs=reqs)
    rc = common.run_tlc('MC_InputHist', HIST_CFG % dict(layout=q(HIST_LAYOUT), maxlen=3, variant='cache_ignores_strict', emit=''),
                        mc_text=mc, workers=4, timeout=300)
    ctx.add_tlc(rc, 'control: contents remembered across a change of the strict flag')
    ctx.control('a content cache that ignores the strict flag violates StrictReadsSafe',
                rc.violated in ('StrictReadsSafe', 'HistoryIndependent'), str(rc.violated))
    job = dict(payload=dict(scratch=scratch), main='MC_InputHist', mc=mc,
               cfg=HIST_CFG % dict(layout=q(HIST_LAYOUT), maxlen=3 if quick else 4, variant='intended', emit='INVARIANT HEmit'),
               tlc_kw=dict(timeout=1800, workers=1))
    m = common.run_dispatch(ctx, ('harness.c15', 'HistConsumer'), job, what='InputHist: histories of set_tex_input_directory / read', batch=200)
    ctx.add_merged(m)
    ctx.log('histories: %d histories of %d calls on one converter, %d reads, %s' % (
        m['n'], 3 if quick else 4, m['counters'].get('calls', 0), {k: v for k, v in m['counters'].items() if k in ('same', 'drift')}))


def _jobs(scratch, toggles, fixed, comps, maxcomps, bases, allowabs, variant, shard_toggles, timeout, emit=True):
    jobs = []
    free = [t for t in toggles if t not in shard_toggles]
    nshards = 2 ** len(shard_toggles)
    for k in range(nshards):
        bits = {t: bool((k >> i) & 1) for i, t in enumerate(shard_toggles)}
        shard = ' @@ '.join('("%s" :> %s)' % (t, 'TRUE' if v else 'FALSE') for t, v in bits.items()) or '[x \\in {} |-> TRUE]'
        cfg = CFG % dict(toggles=q(toggles), fixed=q(fixed), comps=q(comps), maxcomps=maxcomps, bases=q(bases),
                         abs='TRUE' if allowabs else 'FALSE', variant=variant,
                         emit='INVARIANT Emit' if emit else '')
        jobs.append(dict(payload=dict(scratch=scratch), main='MC_InputFile', mc=MC % dict(shard=shard), cfg=cfg,
                         tlc_kw=dict(timeout=timeout, xmx='2g')))
    return jobs


def run(ctx):
    quick = ctx.tier == 'quick'
    ctx.rule = ('TLC enumerates layouts (subsets of 10 optional entries: inside files with/without extension, sibling-'
                'prefix directory, outside file, file/dir symlinks in both directions, links existing only as name.tex / name.latex) x '
                'base given directly or through a symlink x requests of <= MaxComps components (19 names incl. "..", ".", '
                'link names), relative and absolute; each is executed on real directories. Non-trivial: request uses '
                '"..", is absolute, or resolves to a file.')
    scratch = tempfile.mkdtemp(prefix='verif_c15_')
    try:
        # control: the as_implemented variant must violate NeverOutside
        jc = _jobs(scratch, OPTIONAL, [], ["..", "dir2", "sib", "lnk", "in"], 3, ["dir"], False, 'as_implemented', [], 300,
                   emit=False)[0]
        r = common.run_tlc(jc['main'], jc['cfg'], mc_text=jc['mc'], workers=4, timeout=300)
        ctx.add_tlc(r, 'control: Variant=as_implemented')
        ctx.control('as_implemented resolution violates NeverOutside', r.violated == 'NeverOutside', str(r.violated))
        # main run
        if quick:
            t2 = [t for t in OPTIONAL if t not in ('g', 'inl', 'lnkl', 'cap', 'lnkz')]
            jobs = _jobs(scratch, t2, ['g', 'inl', 'lnkl', 'cap', 'lnkz'], COMPS_ALL, 2, ["dir", "dlink"], True, 'intended',
                         ["in", "lnkx", "sib", "sec"], 900)
        else:
            jobs = _jobs(scratch, OPTIONAL, [], COMPS_ALL, 2, ["dir", "dlink"], True, 'intended',
                         ["in", "g", "sib", "sec"], 1800)
        m = common.run_shards(ctx, ('harness.c15', 'FsConsumer'), jobs, what='InputFile intended, <=2 components, all layouts')
        ctx.add_merged(m)
        ctx.log('<=2 components: %d (layout, base, request) cases; verdicts %s' % (
            m['n'], {k: v for k, v in m['counters'].items() if k in ('same', 'drift', 'outside', 'inside-not-read')}))
        # three-component requests on the richest layouts
        comps3 = ["in", "g", "sub", "..", ".", "deep", "dir", "dir2", "sib", "out", "secret", "lnkf", "lnkd", "back", "lnk", "dlink", "lnk2", "lnkz"] \
            if not quick else ["in", "sub", "..", "deep", "dir2", "sib", "out", "secret", "lnkd", "back", "lnk", "lnk2", "lnkz"]
        togg3 = ["in", "lnkx", "lnkd", "back"] if quick else ["in", "inl", "lnkx", "lnkd", "back", "lnkf"]
        fixed3 = [t for t in OPTIONAL if t not in togg3]
        jobs3 = _jobs(scratch, togg3, fixed3, comps3, 3, ["dir", "dlink"], not quick, 'intended',
                      togg3[:4], 1800)
        m3 = common.run_shards(ctx, ('harness.c15', 'FsConsumer'), jobs3, what='InputFile intended, 3 components')
        ctx.add_merged(m3)
        ctx.log('3 components: %d cases; verdicts %s' % (
            m3['n'], {k: v for k, v in m3['counters'].items() if k in ('same', 'drift', 'outside', 'inside-not-read')}))
        run_histories(ctx, scratch)
    finally:
        shutil.rmtree(scratch, ignore_errors=True)
    ctx.exhaustive = True
    ctx.assumptions += ['POSIX file system with symlinks; the scratch root itself contains no symlinks above p/q '
                        '(requests never climb more than 3 levels)']


def replay(case):
    c = case['case']
    scratch = tempfile.mkdtemp(prefix='verif_c15_')
    try:
        from pylatexenc.latex2text import LatexNodes2Text
        if 'history' in c:
            root = layout_dir(scratch, c['layout'])
            l2t = LatexNodes2Text()
            ok = True
            for op, b, strict, fn in c['history']:
                l2t.set_tex_input_directory(os.path.join(root, 'p', 'q', b), strict_input=strict)
                if op != 'read':
                    print('set_tex_input_directory(%s, strict_input=%s)' % (b, strict))
                    continue
                val = l2t.read_input_file(fn).strip()
                got = MARK2PATH.get(val)
                basepath = ['p', 'q', 'dir'] if b in ('dir', 'dlink') else ['p', 'q', b]
                bad = strict and got is not None and got[:len(basepath)] != basepath
                print('read_input_file(%r) [base %s, strict %s] -> %s%s' % (fn, b, strict, got, '   OUTSIDE' if bad else ''))
                ok = ok and not bad
            return ok
        root = layout_dir(scratch, c['layout'])
        base = os.path.join(root, 'p', 'q', c['base'])
        reqs = c['request']
        fn = reqs[4:] if reqs.startswith('ABS:') else reqs
        if reqs.startswith('ABS:'):
            fn = root + '/' + fn
        l2t = LatexNodes2Text()
        l2t.set_tex_input_directory(base)
        if c.get('via') == 'latex_to_text':
            val = l2t.latex_to_text('\\input{%s}' % fn)
        else:
            val = l2t.read_input_file(fn)
        verdict, info = judge(c['model'], val)
        print('layout', c['layout'], 'base', c['base'], 'request', reqs, '->', repr(val[:60]), verdict, info)
        return verdict in ('same', 'drift')
    finally:
        _layout_cache.clear()
        shutil.rmtree(scratch, ignore_errors=True)

# -*- coding: utf-8 -*-
"""C20 -- positions map to the right line and column, also in error reports.

Spec: spec/LineCol.tla (scanner = Tier B, `Statement` = Tier A, TLC checks
TableOK/Complete/Terminates for every string up to the bound).  Binding S->C:
TLC prints the finished table of every (string, offsets) pair; the real
LineNumbersCalculator and LatexWalker.pos_to_lineno_colno are asked for every
position and must answer exactly the table (the property is an exact
functional statement: verdict rule 2).  Second run: strings over a
LaTeX-significant alphabet are parsed strictly; every LatexWalkerParseError
must carry the (lineno, colno) the table gives for its own `pos`.
"""
from __future__ import annotations

from . import common
from .common import Consumer, uncodes, guarded

LEVEL = 'model_checking'

CFG = """CONSTANTS
  Alphabet = {%(alpha)s}
  K = %(K)d
  LineOffs = {%(lo)s}
  FirstColOffs = {%(fo)s}
  ColOffs = {%(co)s}
  Shard = %(shard)d
SPECIFICATION Spec
INVARIANT TableOK
INVARIANT Complete
INVARIANT Emit
PROPERTY Terminates
CHECK_DEADLOCK FALSE
"""


class TableConsumer(Consumer):
    """payload: dict(mode='table'|'errors')"""

    def feed(self, rec):
        from pylatexenc._util import LineNumbersCalculator
        from pylatexenc.latexwalker import LatexWalker
        from pylatexenc.latexnodes import LatexWalkerParseError
        from pylatexenc.latexnodes.parsers import LatexGeneralNodesParser
        self.n += 1
        s = uncodes(rec['s'])
        off = rec['off']
        table = rec['table']
        case = dict(s=s, off=off)
        if '\n' in s:
            self.nontrivial += 1
        self.sample(dict(s=s, off=off, table=[[e['pos'], e['lineno'], e['colno']] for e in table]))
        kw = dict(line_number_offset=off['line'], first_line_column_offset=off['first'],
                  column_offset=off['col'])
        if self.payload['mode'] == 'table':
            def run_calc():
                c = LineNumbersCalculator(s, **kw)
                w = LatexWalker(s, **kw)
                out = []
                for e in table:
                    a = c.pos_to_lineno_colno(e['pos'])
                    b = w.pos_to_lineno_colno(e['pos'])
                    d = c.pos_to_lineno_colno(e['pos'], as_dict=True)
                    out.append((tuple(a), tuple(b), (d['lineno'], d['colno'])))
                return out
            st, val = guarded(run_calc)
            if st != 'ok':
                self.violation('outcome', case, detail=dict(status=st, exc=repr(val)),
                               sig=dict(clause='outcome', status=st, exc=type(val).__name__))
                return
            for e, (a, b, d) in zip(table, val):
                exp = (e['lineno'], e['colno'])
                self.counters['positions'] += 1
                if a != exp or b != exp or d != exp:
                    self.violation('table', dict(case, pos=e['pos']),
                                   detail=dict(model=exp, calculator=a, walker=b, as_dict=d),
                                   sig=dict(clause='table'))
                    return
        else:
            def run_parse():
                w = LatexWalker(s, tolerant_parsing=False, **kw)
                try:
                    w.parse_content(LatexGeneralNodesParser())
                except LatexWalkerParseError as e:
                    return (e.pos, e.lineno, e.colno)
                return None
            st, val = guarded(run_parse)
            if st != 'ok':
                # other exception types / timeouts are C05's business, not C20's
                self.counters['parse_other_outcome'] += 1
                return
            if val is None:
                self.counters['parse_ok'] += 1
                return
            pos, lineno, colno = val
            self.counters['parse_errors'] += 1
            if pos is None or not (0 <= pos < len(table)):
                self.counters['error_without_pos'] += 1   # C05's clause
                return
            exp = (table[pos]['lineno'], table[pos]['colno'])
            if (lineno, colno) != exp:
                self.violation('error-report', dict(case, pos=pos),
                               detail=dict(model=exp, reported=(lineno, colno)),
                               sig=dict(clause='error-report'))


def _jobs(alpha, K, lo, fo, co, mode, timeout):
    jobs = []
    for sh in [0] if K <= 3 else sorted(alpha):
        cfg = CFG % dict(alpha=', '.join(map(str, sorted(alpha))), K=K, lo=', '.join(map(str, lo)),
                         fo=', '.join(map(str, fo)), co=', '.join(map(str, co)), shard=sh)
        jobs.append(dict(payload=dict(mode=mode), main='LineCol', cfg=cfg, tlc_kw=dict(timeout=timeout)))
    if K > 3:
        # the empty string and nothing else: K = 0, Shard = 0
        cfg = CFG % dict(alpha=', '.join(map(str, sorted(alpha))), K=0, lo=', '.join(map(str, lo)),
                         fo=', '.join(map(str, fo)), co=', '.join(map(str, co)), shard=0)
        jobs.append(dict(payload=dict(mode=mode), main='LineCol', cfg=cfg, tlc_kw=dict(timeout=timeout)))
    return jobs


def run(ctx):
    quick = ctx.tier == 'quick'
    A1 = [97, 10, 13, 32]
    K1 = 6 if quick else 8
    ctx.rule = ('TLC enumerates every string of length <= K over {a, \\n, \\r, space} x every offset '
                'triple and prints the scanner table; every position of every string is asked of the real '
                'calculator and walker. Second run: strings over {a, \\n, {, }, $, \\\\} parsed strictly, '
                'error (lineno, colno) compared with the table. Non-trivial: string contains a newline.')
    m = common.run_shards(ctx, ('harness.c20', 'TableConsumer'),
                          _jobs(A1, K1, [1, 0, 5], [0, 3], [0, 2], 'table', 600), what='LineCol table')
    ctx.add_merged(m)
    ctx.log('table run: %d (string, offsets) pairs, %d positions' % (m['n'], m['counters'].get('positions', 0)))
    A2 = [97, 10, 123, 125, 36, 92]
    K2 = 5 if quick else 7
    m2 = common.run_shards(ctx, ('harness.c20', 'TableConsumer'),
                           _jobs(A2, K2, [1, 4], [0, 2], [0, 3], 'errors', 900), what='LineCol error reports')
    ctx.add_merged(m2)
    ctx.log('error run: %d pairs, %d parse errors located' % (m2['n'], m2['counters'].get('parse_errors', 0)))
    if m2['counters'].get('parse_errors', 0) == 0:
        raise common.MachineryError('error-report run produced no parse errors (vacuous)')
    ctx.exhaustive = True
    ctx.notes['bounds'] = dict(K_table=K1, K_errors=K2)
    ctx.assumptions += ['TLC and the CommunityModules Json module are trusted',
                        'errors without a position are judged by C05, not here']


def replay(case):
    from pylatexenc._util import LineNumbersCalculator
    c = case['case']
    off = c['off']
    s = c['s']
    calc = LineNumbersCalculator(s, line_number_offset=off['line'], first_line_column_offset=off['first'],
                                 column_offset=off['col'])
    # independent re-statement of Tier A in Python for the single stored position
    pos = c.get('pos', 0)
    lineno, colno = calc.pos_to_lineno_colno(pos)
    k = s.count('\n', 0, pos)
    start = 0 if k == 0 else [i for i, ch in enumerate(s) if ch == '\n'][k - 1] + 1
    exp = (k + off['line'], pos - start + (off['first'] if k == 0 else off['col']))
    print('pos', pos, 'expected', exp, 'calculator', (lineno, colno))
    if case.get('clause') == 'error-report':
        from pylatexenc.latexwalker import LatexWalker
        from pylatexenc.latexnodes import LatexWalkerParseError
        from pylatexenc.latexnodes.parsers import LatexGeneralNodesParser
        w = LatexWalker(s, tolerant_parsing=False, line_number_offset=off['line'],
                        first_line_column_offset=off['first'], column_offset=off['col'])
        try:
            w.parse_content(LatexGeneralNodesParser())
        except LatexWalkerParseError as e:
            k = s.count('\n', 0, e.pos)
            start = 0 if k == 0 else [i for i, ch in enumerate(s) if ch == '\n'][k - 1] + 1
            exp = (k + off['line'], e.pos - start + (off['first'] if k == 0 else off['col']))
            print('error pos', e.pos, 'expected', exp, 'reported', (e.lineno, e.colno))
            return (e.lineno, e.colno) == exp
        return True
    return (lineno, colno) == exp

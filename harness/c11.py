# -*- coding: utf-8 -*-
"""C11 -- tokenizer is lossless, always advances, and peeking has no effect.

Tier B: spec/Tokenizer.tla (TokenAt) + spec/TokReader.tla (reader machine with the
schedule Peek; Next; MoveTo; Next-again).  TLC checks PeekPure, PeekEqualsNext,
Advances, RereadEqual, Chain, Lossless, BoundedReads and termination on every
behaviour (small bound, full schedule), and both as_implemented variants must
yield counterexamples.  Large export runs (schedule "next") print the token
sequence of every (string, configuration, mode).

Binding S->C: the real LatexTokenReader is driven through the full schedule on
the same string/configuration/mode; the observed events must equal the events
the model's token sequence implies.  Binding C->S (verdict rule 3): every
deviating execution, plus a deterministic sample of all executions, is written
out as an event trace and validated by TLC against the Tier-A acceptor
spec/TokStream.tla; a deviation that the acceptor accepts is drift, one it
rejects is a violation.
"""
from __future__ import annotations

import json

from . import common, pstate
from .common import Consumer, uncodes, guarded, codes

LEVEL = 'model_checking'

ATOMS = ['a', ' ', '\n', '\r', '\t', '\\', '{', '}', '[', ']', '$', '%', '~', '-', '*',
         '\\begin{e}', '\\end{e}', '\\begin', '\\end', '\\(', '\\)', '\\[', '\\]']

M = pstate.make
CONFIGS = {
    'default': M(),
    'noctx': M(ctx='none'),
    'math_dollar': M(in_math=True, mdelim='$'),
    'math_ddollar': M(in_math=True, mdelim='$$'),
    'math_paren': M(in_math=True, mdelim='\\('),
    'math_brack': M(in_math=True, mdelim='\\['),
    'math_env': M(in_math=True, mdelim=''),
    'brackets': M(groups=[('{', '}'), ('[', ']')]),
    'nopar': M(en_par=False),
    'noenv': M(en_envs=False),
    'nomacro': M(en_macros=False),
    'nocomment': M(en_comments=False),
    'nomath': M(en_math=False),
    'nogroups': M(en_groups=False),
    'nospecials': M(en_specials=False),
    'forbid': M(en_math=False, forbidden='$%'),
    'nomacro_noenv': M(en_macros=False, en_envs=False),
    'nomath_math': M(en_math=False, in_math=True, mdelim='$'),
    'noctx_nopar': M(ctx='none', en_par=False),
    'only_dollar': M(inline=[('$', '$')], display=[]),
    'alt_delims': M(inline=[('!', '!')], display=[('\\[', '\\]')], in_math=True, mdelim='!'),
    'esc_bang': M(esc='!'),
    'cmt_hash': M(cmt='#'),
    'brackets_math': M(groups=[('{', '}'), ('[', ']')], in_math=True, mdelim='\\['),
}
QUICK_WIDE = ['default', 'noctx', 'math_dollar', 'math_ddollar', 'math_paren', 'math_env', 'brackets', 'nopar',
              'noenv', 'nomacro', 'nocomment', 'nomath', 'nogroups', 'forbid', 'only_dollar', 'brackets_math']

MC = """---- MODULE MC_TokReader ----
EXTENDS TokReader
AtomsDef == %(atoms)s
CfgsDef == %(cfgs)s
====
"""
CFG = """CONSTANTS
  VTok = "%(vtok)s"
  VPeek = "%(vpeek)s"
  Atoms <- AtomsDef
  Cfgs <- CfgsDef
  K = %(K)d
  Shard = %(shard)d
  CfgNames = {%(names)s}
  Modes = {%(modes)s}
  Schedule = "%(schedule)s"
SPECIFICATION Spec
INVARIANT PeekEqualsNext
INVARIANT RereadEqual
INVARIANT Chain
INVARIANT Lossless
INVARIANT BoundedReads
%(emit)s
PROPERTY PeekPure
PROPERTY Advances
%(live)s
CHECK_DEADLOCK FALSE
"""


def mc_text(atoms, names):
    cfgs = ' @@ '.join('("%s" :> %s)' % (n, pstate.tla_record(CONFIGS[n])) for n in names)
    return MC % dict(atoms=pstate.atoms_tla(atoms), cfgs=cfgs)


def cfg_text(K, shard, names, modes, schedule, vtok='intended', vpeek='intended', emit=True, live=False):
    return CFG % dict(vtok=vtok, vpeek=vpeek, K=K, shard=shard, names=', '.join('"%s"' % n for n in names),
                      modes=', '.join('"%s"' % m for m in modes), schedule=schedule,
                      emit='INVARIANT Emit' if emit else '', live='PROPERTY Terminates' if live else '')


# ---------------------------------------------------------------------------
# driving the real reader

_ps_cache = {}


def _state(name):
    if name not in _ps_cache:
        _ps_cache[name] = pstate.real_state(CONFIGS[name])
    return _ps_cache[name]


def drive_real(s, cfgname, mode, max_tokens=None):
    """Full schedule on the real LatexTokenReader.  Returns (events, first_readings)."""
    from pylatexenc.latexnodes import LatexTokenReader, LatexWalkerTokenParseError, LatexWalkerEndOfStream
    ps = _state(cfgname)
    r = LatexTokenReader(s, tolerant_parsing=(mode == 'tolerant'))
    events = []
    reads = []
    keys = {}

    def key(pt):
        k = json.dumps(pt, sort_keys=True)
        if k not in keys:
            keys[k] = len(keys) + 1
        return keys[k]

    def tokev(kind, p0, t, p1):
        pt = pstate.proj_token(t)
        return dict(e=kind, p0=p0, p1=p1, pos=t.pos, pos_end=t.pos_end, pre=codes(t.pre_space), key=key(pt), ps=1), pt
    limit = max_tokens if max_tokens is not None else len(s) + 3
    for _ in range(limit + 1):
        p0 = r.cur_pos()
        # Peek
        try:
            t = r.peek_token(ps)
        except LatexWalkerEndOfStream as e:
            events.append(dict(e='Eos', p0=p0, p1=r.cur_pos(), final=codes(e.final_space or '')))
            reads.append(dict(t='EOS', final=len(e.final_space or '')))
            return events, reads
        except LatexWalkerTokenParseError as e:
            events.append(dict(e='Err', p0=p0, p1=r.cur_pos()))
            reads.append(dict(t='ERR', ph=pstate.proj_token(e.recovery_token_placeholder),
                              resume=e.recovery_token_at_pos, pos=e.pos))
            return events, reads
        ev, _pt = tokev('Peek', p0, t, r.cur_pos())
        events.append(ev)
        # Next
        p0 = r.cur_pos()
        t = r.next_token(ps)
        ev, pt = tokev('Next', p0, t, r.cur_pos())
        events.append(ev)
        reads.append(pt)
        # MoveTo + Next again
        r.move_to_token(t)
        events.append(dict(e='MoveTo', p1=r.cur_pos(), pos=t.pos, prelen=len(t.pre_space), key=key(pt), ps=1))
        p0 = r.cur_pos()
        t2 = r.next_token(ps)
        ev, _ = tokev('Next', p0, t2, r.cur_pos())
        events.append(ev)
    events.append(dict(e='Err', p0=r.cur_pos(), p1=-1))     # more reads than characters: rejected by the acceptor
    reads.append(dict(t='RUNAWAY'))
    return events, reads


def predicted_events(s, toks):
    """Events implied by the model's token sequence under the full schedule."""
    out = []
    keys = {}

    def key(pt):
        k = json.dumps(pt, sort_keys=True)
        if k not in keys:
            keys[k] = len(keys) + 1
        return keys[k]
    p = 0
    for t in toks:
        if t['t'] == 'EOS':
            out.append(dict(e='Eos', p0=p, p1=p, final=codes(s[p:p + t['final']])))
            break
        if t['t'] == 'ERR':
            out.append(dict(e='Err', p0=p, p1=p))
            break
        pre = codes(s[p:t['pos']])
        k = key(t)
        out.append(dict(e='Peek', p0=p, p1=p, pos=t['pos'], pos_end=t['pos_end'], pre=pre, key=k, ps=1))
        out.append(dict(e='Next', p0=p, p1=t['pos_end'], pos=t['pos'], pos_end=t['pos_end'], pre=pre, key=k, ps=1))
        out.append(dict(e='MoveTo', p1=t['pos'] - t['pre'], pos=t['pos'], prelen=t['pre'], key=k, ps=1))
        out.append(dict(e='Next', p0=t['pos'] - t['pre'], p1=t['pos_end'], pos=t['pos'], pos_end=t['pos_end'],
                        pre=pre, key=k, ps=1))
        p = t['pos_end']
    return out


def _norm_model_toks(toks):
    out = []
    for t in toks:
        t = dict(t)
        if t['t'] == 'ERR':
            t.pop('what', None)
        out.append(t)
    return out


class TokConsumer(Consumer):
    def __init__(self, payload):
        super().__init__(payload)
        self.traces = []          # (case, trace, reason) to be validated by TLC

    def feed(self, rec):
        self.n += 1
        s = uncodes(rec['s'])
        case = dict(s=s, cfg=rec['cfg'], mode=rec['mode'])
        mtoks = _norm_model_toks(rec['toks'])
        if len(mtoks) >= 3:
            self.nontrivial += 1
        self.sample(dict(case, tokens=[(t['t'], uncodes(t.get('arg', []))) for t in mtoks]), every=19997)
        st, val = guarded(drive_real, s, rec['cfg'], rec['mode'])
        if st != 'ok':
            self.violation('outcome', case, detail=dict(status=st, exc=repr(val)),
                           sig=dict(clause='outcome', status=st, exc=type(val).__name__, mode=rec['mode']))
            return
        events, reads = val
        pred = predicted_events(s, mtoks)
        same = (events == pred and reads == mtoks)
        if same:
            self.counters['same'] += 1
            if self.n % self.payload.get('sample_every', 50) == 0 and len(self.traces) < 4000:
                self.traces.append((case, dict(s=rec['s'], ev=events), 'sample'))
        else:
            self.counters['deviates'] += 1
            if len(self.traces) < 6000:
                self.traces.append((case, dict(s=rec['s'], ev=events), 'deviation'))
            else:
                self.counters['deviations_not_kept'] += 1

    def result(self):
        r = super().result()
        r['extra'] = dict(traces=self.traces)
        return r


def _validate(ctx, merged):
    """C->S: send the collected traces through the TokStream acceptor."""
    items = []
    for ex in merged['extra']:
        items.extend(ex.get('traces', []))
    if not items:
        return
    traces = [it[1] for it in items]
    flags, diags = common.validate_traces(ctx, 'TokStream', traces, what='C->S TokStream acceptor')
    nacc = sum(flags)
    ctx.traces_validated += len(traces)
    ctx.counters['traces_validated_by_acceptor'] += len(traces)
    ctx.counters['traces_accepted'] += nacc
    for idx, (case, tr, reason) in enumerate(items):
        if flags[idx]:
            if reason == 'deviation':
                ctx.drift_count += 1
                if len(ctx.drift) < 10:
                    ctx.drift.append(dict(case=case))
            continue
        d = diags.get(idx, {})
        ctx.violation('acceptor-rejects', case, detail=d,
                      sig=dict(clause='acceptor-rejects', failed=','.join(d.get('failed_clauses', [])) or '?',
                               mode=case['mode']))
    # deviations beyond the cap were not judged: if none of the judged ones was rejected the run cannot conclude
    if merged['counters'].get('deviations_not_kept') and not ctx.violations:
        raise common.MachineryError('too many deviating executions to validate (%d dropped)' %
                                    merged['counters']['deviations_not_kept'])


def run_repo_tests(ctx, files=None, kind='reader'):
    """C->S on the repository's own tests (CCF pattern): every token-reader call the tests cause is recorded
    by the pytest plugin harness/pytest_recorder.py and validated by TLC against TokStream."""
    import json
    import os
    import subprocess
    import tempfile
    d = tempfile.mkdtemp(prefix='verif_rec_')
    try:
        out = os.path.join(d, 'rec.json')
        env = dict(os.environ, VERIF_REC_OUT=out, PYTHONPATH=common.VERIF + ':' + os.environ.get('VERIF_REPO', '/repo'), PYTHONHASHSEED='0')
        cmd = ['/venv/bin/python', '-m', 'pytest', '-q', '-p', 'no:cacheprovider', '-p', 'harness.pytest_recorder'] + \
            [os.path.join(os.environ.get('VERIF_REPO', '/repo'), 'test', f) for f in (files or [''])]
        p = subprocess.run(cmd, cwd=d, env=env, capture_output=True, text=True, timeout=1800)
        if not os.path.exists(out):
            raise common.MachineryError('recording run of the repository tests produced no traces:\n' + p.stdout[-1500:])
        with open(out) as f:
            traces = json.load(f)
        if kind == 'trees':
            with open(out + '.trees') as f:
                return json.load(f)
    finally:
        import shutil
        shutil.rmtree(d, ignore_errors=True)
    flags, diags = common.validate_traces(ctx, 'TokStream', traces, what='C->S TokStream acceptor on repository-test traces')
    nev = sum(len(t['ev']) for t in traces)
    ctx.traces_validated += len(traces)
    ctx.evaluations += len(traces)
    ctx.counters['repo_test_reader_traces'] += len(traces)
    ctx.counters['repo_test_reader_events'] += nev
    for idx, tr in enumerate(traces):
        if not flags[idx]:
            dg = diags.get(idx, {})
            ctx.violation('acceptor-rejects', dict(s=uncodes(tr['s']), source='repository test suite', cfg='(test)', mode='(test)'),
                          detail=dg, sig=dict(clause='acceptor-rejects', failed=','.join(dg.get('failed_clauses', [])) or '?',
                                              source='repo-tests'))
    ctx.log('repository tests under the recorder: %d reader traces, %d events, %d accepted' % (len(traces), nev, sum(flags)))


def _export_jobs(atoms, names, K, modes, timeout, sample_every):
    mc = mc_text(atoms, names)
    jobs = []
    for sh in range(0, len(atoms) + 1):
        jobs.append(dict(payload=dict(sample_every=sample_every), main='MC_TokReader', mc=mc,
                         cfg=cfg_text(K, sh, names, modes, 'next'), tlc_kw=dict(timeout=timeout, xmx='2g')))
    return jobs


# ---------------------------------------------------------------------------
# arbitrary schedules of token-level and character-level calls (spec/TokSched.tla)

SCHED_ATOMS = ['a', ' ', '\n', '{', '\\m ', '%', '$', '\\', '\\begin{e}']
SCHED_OPS = ['Peek', 'Next', 'Chars', 'PeekChars', 'SkipSpace', 'MoveTo', 'MovePast', 'Home']
SCHED_MC = """---- MODULE MC_TokSched ----
EXTENDS TokSched
AtomsDef == %(atoms)s
CfgsDef == %(cfgs)s
====
"""
SCHED_CFG = """CONSTANTS
  VTok = "intended"
  Atoms <- AtomsDef
  Cfgs <- CfgsDef
  K = %(K)d
  Shard = %(shard)d
  CfgNames = {%(names)s}
  Modes = {"strict", "tolerant"}
  MaxOps = %(maxops)d
  Ops = {%(ops)s}
SPECIFICATION Spec
INVARIANT PeekThenNext
INVARIANT ReadAdvances
INVARIANT ReadAtPosition
INVARIANT Emit
PROPERTY PeekHasNoEffect
CHECK_DEADLOCK FALSE
"""


def run_schedule_real(s, cfgname, mode, ops):
    """Replay a schedule (list of op names) on a real LatexTokenReader; returns the observations in the model's shape."""
    from pylatexenc.latexnodes import LatexTokenReader, LatexWalkerTokenParseError, LatexWalkerEndOfStream
    ps = _state(cfgname)
    r = LatexTokenReader(s, tolerant_parsing=(mode == 'tolerant'))
    last = None
    out = []

    def tokobs(fn):
        try:
            t = fn(ps)
        except LatexWalkerEndOfStream as e:
            return None, dict(t='EOS', final=len(e.final_space or ''))
        except LatexWalkerTokenParseError as e:
            return None, dict(t='ERR', ph=pstate.proj_token(e.recovery_token_placeholder), resume=e.recovery_token_at_pos, pos=e.pos)
        return t, pstate.proj_token(t)
    for op in ops:
        if op in ('Peek', 'Next'):
            t, obs = tokobs(r.peek_token if op == 'Peek' else r.next_token)
            if t is not None:
                last = t
        elif op == 'Chars':
            try:
                obs = dict(t='chars', c=codes(r.next_chars(1, ps)))
            except LatexWalkerEndOfStream:
                obs = dict(t='EOS')
        elif op == 'PeekChars':
            try:
                obs = dict(t='chars', c=codes(r.peek_chars(2, ps)))
            except LatexWalkerEndOfStream:
                obs = dict(t='EOS')
        elif op == 'SkipSpace':
            sp = r.skip_space_chars(ps)
            obs = dict(t='space', c=codes(sp[0]))
        elif op == 'MoveTo':
            r.move_to_token(last)
            obs = dict(t='moved')
        elif op == 'MovePast':
            r.move_past_token(last)
            obs = dict(t='moved')
        elif op == 'Home':
            r.move_to_pos_chars(0)
            obs = dict(t='moved')
        else:
            raise common.MachineryError('unknown op ' + op)
        out.append(dict(op=op, obs=obs, p1=r.cur_pos()))
    return out


class SchedConsumer(Consumer):
    def feed(self, rec):
        self.n += 1
        s = uncodes(rec['s'])
        ops = [h['op'] for h in rec['hist']]
        case = dict(s=s, cfg=rec['cfg'], mode=rec['mode'], schedule=ops)
        if len(set(ops)) >= 3:
            self.nontrivial += 1
        self.sample(case, every=49999)
        st, val = guarded(run_schedule_real, s, rec['cfg'], rec['mode'], ops)
        if st != 'ok':
            self.violation('outcome', case, detail=dict(status=st, exc=repr(val)), sig=dict(clause='schedule-outcome', exc=type(val).__name__))
            return
        model = []
        for h in rec['hist']:
            o = dict(h['obs'])
            if o.get('t') == 'ERR':
                o.pop('what', None)
            if o.get('t') == 'EOS' and h['op'] in ('Chars', 'PeekChars'):
                o = dict(t='EOS')
            model.append(dict(op=h['op'], obs=o, p1=h['p1']))
        if val != model:
            k = next(i for i in range(len(model)) if val[i] != model[i])
            self.violation('schedule-observation-differs', dict(case, step=k + 1),
                           detail=dict(model=model[k], impl=val[k], before=[m['op'] for m in model[:k]]),
                           sig=dict(clause='schedule-observation-differs', op=model[k]['op']))
            return
        self.counters['same'] += 1


def run_schedules(ctx):
    quick = ctx.tier == 'quick'
    names = ['default', 'math_dollar'] if quick else ['default', 'math_dollar', 'noctx', 'brackets', 'forbid']
    maxops = 4 if quick else 5
    K = 2
    cfgs = ' @@ '.join('("%s" :> %s)' % (n, pstate.tla_record(CONFIGS[n])) for n in names)
    mc = SCHED_MC % dict(atoms=pstate.atoms_tla(SCHED_ATOMS), cfgs=cfgs)
    jobs = [dict(payload={}, main='MC_TokSched', mc=mc,
                 cfg=SCHED_CFG % dict(K=K, shard=sh, names=', '.join('"%s"' % n for n in names), maxops=maxops,
                                      ops=', '.join('"%s"' % o for o in SCHED_OPS)),
                 tlc_kw=dict(timeout=6000, xmx='3g')) for sh in range(1, len(SCHED_ATOMS) + 1)]
    m = common.run_shards(ctx, ('harness.c11', 'SchedConsumer'), jobs,
                          what='TokSched: every schedule of %d calls out of %d kinds, strings <= %d atoms, %d configurations' % (
                              maxops, len(SCHED_OPS), K, len(names)))
    ctx.add_merged(m)
    ctx.log('schedules: %d (string, configuration, mode, schedule of %d calls) replayed, %s' % (
        m['n'], maxops, {k: v for k, v in m['counters'].items() if k == 'same'}))
    ctx.notes['schedules'] = ('every sequence of %d calls over {peek_token, next_token, next_chars, peek_chars, skip_space_chars, '
                              'move_to_token, move_past_token, move_to_pos_chars} on strings of <= %d atoms; exact observation '
                              'equality with TokSched.tla' % (maxops, K))


LONG_MC = """---- MODULE MC_TokLong ----
EXTENDS TokLong
AtomsDef == %(atoms)s
CfgsDef == %(cfgs)s
====
"""
LONG_CFG = """CONSTANTS
  VTok = "intended"
  Atoms <- AtomsDef
  Cfgs <- CfgsDef
  MaxAtoms = %(maxatoms)d
  CfgNames = {%(names)s}
  Modes = {"strict", "tolerant"}
SPECIFICATION Spec
INVARIANT Chain
INVARIANT Lossless
INVARIANT BoundedReads
INVARIANT Emit
CHECK_DEADLOCK FALSE
"""


def run_long(ctx):
    """random longer strings: tlc -simulate over TokLong.tla, replayed with the full schedule on the real reader"""
    quick = ctx.tier == 'quick'
    names = sorted(CONFIGS)
    maxatoms = 14 if quick else 30
    cfgs = ' @@ '.join('("%s" :> %s)' % (n, pstate.tla_record(CONFIGS[n])) for n in names)
    mc = LONG_MC % dict(atoms=pstate.atoms_tla(ATOMS), cfgs=cfgs)
    tot = 0
    nsim = 4 if quick else 16
    jobs = [dict(payload=dict(sample_every=10), main='MC_TokLong', mc=mc,
                 cfg=LONG_CFG % dict(maxatoms=maxatoms, names=', '.join('"%s"' % n for n in names)),
                 tlc_kw=dict(timeout=900, xmx='2g', simulate='num=%d' % (1500 if quick else 6000), depth=maxatoms + 2,
                             seed=(ctx.seed * 131 + k) % (2 ** 31))) for k in range(nsim)]
    m = common.run_shards(ctx, ('harness.c11', 'TokConsumer'), jobs, what='TokLong: random strings of %d atoms (simulate)' % maxatoms)
    ctx.add_merged(m, validated=True)
    ctx.log('random long strings (%d atoms): %d executions, %s' % (maxatoms, m['n'],
            {k: v for k, v in m['counters'].items() if k in ('same', 'deviates')}))
    _validate(ctx, m)


def run(ctx):
    quick = ctx.tier == 'quick'
    ctx.rule = ('TLC enumerates every string of <= K atoms over a 23-atom LaTeX alphabet (incl. CR and TAB) x parsing-state configurations '
                '(each switch alone and in pairs, math modes, extra delimiters, with/without context db) x '
                '{strict, tolerant}; the real reader is driven through peek/next/move_to_token/next at every token and '
                'must produce exactly the implied events; deviating and sampled executions are validated by TLC against '
                'the TokStream acceptor. Non-trivial: at least two tokens before the end of the stream.')
    names_all = sorted(CONFIGS)
    # 1. Tier A on the machine with the full schedule (small bound), incl. liveness
    small_atoms = ['a', ' ', '\n', '\\', '{', '$', '%', '\\begin', '\\(', '\\begin{e}']
    mc_small = mc_text(small_atoms, names_all)
    r = common.run_tlc('MC_TokReader', cfg_text(3, 1, names_all, ['strict', 'tolerant'], 'full', emit=False, live=True)
                       .replace('Shard = 1', 'Shard = 4'), mc_text=mc_small, workers=common.NPROC, timeout=900, xmx='8g')
    ctx.add_tlc(r, 'TokReader full schedule, Tier-A clauses + termination (shard "\\")')
    common.tlc_must_pass(r, 'TokReader full schedule')
    # 2. controls
    for vt, vp, name in (('as_implemented', 'intended', 'zero-width placeholder for a trailing escape'),
                         ('intended', 'as_implemented', 'tolerant peek_token moves the reader')):
        rc = common.run_tlc('MC_TokReader', cfg_text(2, 4, ['default', 'forbid'], ['tolerant'], 'full', vtok=vt, vpeek=vp,
                                                    emit=False), mc_text=mc_small, workers=2, timeout=300)
        ctx.add_tlc(rc, 'control: ' + name)
        ctx.control(name, rc.violated is not None, str(rc.violated))
    # 3. export runs
    if quick:
        plans = [(ATOMS, QUICK_WIDE, 3, ['strict', 'tolerant'], 20), (ATOMS, ['default'], 4, ['tolerant'], 100)]
    else:
        plans = [(ATOMS, names_all, 4, ['strict', 'tolerant'], 400), (ATOMS, ['default'], 5, ['tolerant'], 400)]
    # long whitespace runs (longer than any buffer a scanner might use): leading, trailing, between tokens, paragraph breaks
    WIDE = ['a', ' ' * 33, '\n' + ' ' * 34, '\t' * 31 + ' \n', '\\m', '%', '\n', ' ' * 64]
    plans.append((WIDE, ['default', 'noctx', 'nopar', 'math_dollar'], 3, ['strict', 'tolerant'], 7))
    for atoms, names, K, modes, se in plans:
        m = common.run_shards(ctx, ('harness.c11', 'TokConsumer'), _export_jobs(atoms, names, K, modes, 3000, se),
                              what='TokReader export K=%d, %d configurations' % (K, len(names)))
        ctx.add_merged(m, validated=True)
        ctx.log('K=%d x %d cfgs: %d executions, %s' % (K, len(names), m['n'],
                {k: v for k, v in m['counters'].items() if k in ('same', 'deviates')}))
        _validate(ctx, m)
    run_schedules(ctx)
    run_long(ctx)
    run_repo_tests(ctx, None if not quick else ['test_latexnodes_tokenreader.py', 'test_latexnodes_nodescollector.py',
                                                'test_latexnodes_parsers_delimited.py', 'test_2_latexwalker.py'])
    ctx.exhaustive = True
    ctx.assumptions += ['token equality is equality of the public projection (kind, argument, positions, pre/post space)']


def replay(case):
    c = case['case']
    if 'schedule' in c:
        obs = run_schedule_real(c['s'], c['cfg'], c['mode'], c['schedule'])
        print('input', repr(c['s']), 'cfg', c['cfg'], 'mode', c['mode'])
        for o in obs:
            print('  ', o)
        k = c.get('step', 1) - 1
        exp = (case.get('detail') or {}).get('model')
        print('TokSched.tla predicts for call %d:' % (k + 1), exp)
        return exp is None or obs[k] == exp
    events, reads = drive_real(c['s'], c['cfg'], c['mode'])
    print('input', repr(c['s']), 'cfg', c['cfg'], 'mode', c['mode'])
    for e in events:
        print('  ', e)
    # re-validate this single trace with the acceptor
    ctx = common.Ctx('C11', 'quick', 0)
    flags, diags = common.validate_traces(ctx, 'TokStream', [dict(s=codes(c['s']), ev=events)])
    print('acceptor:', 'accepts' if flags[0] else ('rejects %r' % diags.get(0)))
    return flags[0]

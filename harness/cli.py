# -*- coding: utf-8 -*-
"""./check <ID> [--tier quick|thorough] [--replay FILE]   |   ./check --setup"""
from __future__ import annotations

import argparse
import importlib
import json
import logging
import os
import subprocess
import sys
import traceback

sys.path.insert(0, os.path.dirname(os.path.dirname(os.path.abspath(__file__))))
os.environ.setdefault('PYTHONHASHSEED', '0')

from harness import common  # noqa: E402

LEVELS = {}


def setup():
    """Offline sanity of the tool chain; parse every specification with SANY."""
    ok = True
    for p in (common.TLA_JAR, '/venv/bin/python'):
        if not os.path.exists(p):
            print('missing', p)
            ok = False
    try:
        import pylatexenc  # noqa
        print('pylatexenc from', os.path.dirname(pylatexenc.__file__))
    except Exception as e:  # noqa
        print('cannot import pylatexenc', e)
        ok = False
    bad = []
    d = common.make_tlc_dir('_none_', None, '')
    try:
        for fn in sorted(os.listdir(common.SPEC_DIR)):
            if not fn.endswith('.tla'):
                continue
            r = subprocess.run(['java', '-cp', common.TLA_JAR + ':' + common.TLA_DEPS, 'tla2sany.SANY', fn],
                               cwd=d, capture_output=True, text=True)
            if r.returncode != 0 or 'Semantic errors' in r.stdout or 'Parse Error' in r.stdout \
                    or '*** Errors' in r.stdout:
                bad.append(fn)
                print(r.stdout[-1500:])
    finally:
        import shutil
        shutil.rmtree(d, ignore_errors=True)
    if bad:
        print('SANY failed for', bad)
        ok = False
    print('setup', 'ok' if ok else 'FAILED')
    return 0 if ok else 2


def main(argv=None):
    ap = argparse.ArgumentParser()
    ap.add_argument('prop', nargs='?')
    ap.add_argument('--tier', default=os.environ.get('VERIF_TIER') or 'quick', choices=['quick', 'thorough'])
    ap.add_argument('--replay')
    ap.add_argument('--setup', action='store_true')
    ap.add_argument('--selftest', action='store_true', help='also run binding demonstrations')
    a = ap.parse_args(argv)
    logging.disable(logging.CRITICAL)
    sys.setrecursionlimit(10000)
    if a.setup:
        return setup()
    if not a.prop:
        ap.error('property id required')
    prop = a.prop.upper()
    try:
        seed = int(os.environ.get('VERIF_SEED', '') or 20261004)
    except ValueError:
        seed = 20261004
    mod = importlib.import_module('harness.' + prop.lower())
    if a.replay:
        with open(a.replay) as f:
            case = json.load(f)
        try:
            ok = mod.replay(case)
        except Exception:  # noqa
            traceback.print_exc()
            print('MACHINERY-ERROR property=%s replay failed to run' % prop)
            return 2
        if ok:
            print('replay: property holds on this case')
            return 0
        print('VIOLATION property=%s replay=%s' % (prop, a.replay))
        return 1
    ctx = common.Ctx(prop, a.tier, seed, level=getattr(mod, 'LEVEL', 'model_checking'))
    ctx.selftest = a.selftest or a.tier == 'thorough'
    try:
        mod.run(ctx)
        rc = ctx.finish()
    except common.MachineryError as e:
        print('MACHINERY-ERROR property=%s %s' % (prop, e))
        return 2
    except Exception:  # noqa
        traceback.print_exc()
        print('MACHINERY-ERROR property=%s unexpected exception in harness' % prop)
        return 2
    print('%s %s tier=%s evaluations=%d states=%d wall=%.1fs' % (
        prop, 'VIOLATED' if rc else 'ok', a.tier, ctx.evaluations, ctx.states, __import__('time').time() - ctx.t0))
    return rc


if __name__ == '__main__':
    sys.exit(main())

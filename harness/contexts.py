# -*- coding: utf-8 -*-
"""Context databases, described once and turned both into the constants of Parser.tla
(MacroSig / EnvSig / SpecSig) and into real LatexContextDb objects.

Model contexts are written by hand ('k': one macro per standard argument type).
The 'default' context is the real default latexwalker database; its description is
*extracted* from the spec objects through public attributes at check time ((D) data
extraction), so the model is instantiated with the code's current data."""
from __future__ import annotations

from .common import tla_seq


def A(k, delta='', a=0, b=0, pre=True):
    return dict(k=k, delta=delta, a=a, b=b, pre=pre)


def parse_argspec(x):
    """'{' 'm' '[' 'o' '*' 's' 't+' 'r()' 'd<>' 'v' ; ('{','text'|'math') ; ('[nopre',)"""
    delta = ''
    if isinstance(x, tuple):
        if len(x) == 2:
            x, delta = x
        else:
            x = x[0]
    if x in ('{', 'm'):
        return A('m', delta)
    if x in ('[', 'o'):
        return A('o', delta)
    if x == '[nopre':
        return A('o', delta, pre=False)
    if x == '{nopre':
        return A('m', delta, pre=False)
    if x in ('*', 's'):
        return A('s', delta)
    if x[0] == 't' and len(x) == 2:
        return A('t', delta, a=ord(x[1]))
    if x[0] in 'rd' and len(x) == 3:
        return A(x[0], delta, a=ord(x[1]), b=ord(x[2]))
    if x == 'v':
        return A('v', delta)
    if x == 'verb':
        return A('verb', delta)
    if x.startswith('e{') and x.endswith('}'):
        r = A('e', delta)
        r['chars'] = x[2:-1]
        return r
    if x in ('AnyDelimited', 'AnyDelimitedOptional'):
        r = A('any', delta)
        r['spec'] = x
        return r
    raise ValueError(x)


# ---------------------------------------------------------------------------
# hand-written model contexts: name -> raw description with argspec strings

RAW = {
    'k': dict(
        macros={'m': ['{'], 'o': ['[', '{'], 's': ['*', '[', '{'], 'f': ['{', '{'], 't': [('{', 'text')],
                'q': [('{', 'math')], 'z': [], '\\': ['*', '[nopre'], 'v': ['v'], 'r': ['r()'], 'd': ['d<>'],
                'c': ['t+'], 'M': ['m', 'o', 's'],
                # one argument slot with a declared mode followed by slots without (user-defined \annot{text}{..})
                'A': [('{', 'text'), '{'], 'S': [('{', 'math'), '[', '{'],
                # second mandatory argument must follow without whitespace (allow_pre_space=False on an expression)
                'N': ['{', '{nopre'],
                # \X switches comments off for what follows it in the same group (make_after_parsing_state_delta)
                'X': [],
                # optional marker whose character also starts a longer specials sequence of this context (- vs -- ---)
                'D': ['t-', '{']},
        envs={'e': dict(args=['[', '{'], body='nodes'), 'q': dict(args=[], body='math'),
              'p': dict(args=['*'], body='nodes')},
        specials={'~': [], '--': [], '---': [], '&': [], '!': ['{']},
        sticky={'X': {'en_comments': False}},
        unknown_macro=True, unknown_env=True),
    # only for checks that drive the real parser alone (kinds not modelled in Parser.tla)
    'kext': dict(
        macros={'tens': ['e{^_}', '{'], 'emb': ['e{_^|}'], 'any': ['AnyDelimited'], 'anyo': ['AnyDelimitedOptional', '{'],
                'm': ['{'], 'v': ['v'], 's': ['*', 't+', '{'],
                # required and optional delimited arguments with the SAME delimiters (distinct entries of the shared parser cache)
                'rp': ['r()'], 'dp': ['d()'], 'rs': ['r[]'], 'os': ['[']},
        envs={'e': dict(args=['e{^_}'], body='nodes')},
        specials={'~': []},
        unknown_macro=True, unknown_env=True),
    # context databases whose definitions are extended *while parsing* (environment body brings local macros);
    # built by build_dynamic() in two ways that leave an auto-named category first.  Real parser only.
    'kdyn': dict(macros={'m': ['{'], 'z': []}, envs={'e': dict(args=['['], body='nodes')}, specials={'~': []},
                 unknown_macro=True, unknown_env=True),
    'kdyn2': dict(macros={'m': ['{'], 'z': []}, envs={'e': dict(args=['['], body='nodes')}, specials={'~': []},
                  unknown_macro=True, unknown_env=True),
    # specials declared in two categories: the short sequences first, the longer ones (which start with a short one) in a
    # later category -- the longest match wins whatever the category
    'ksp': dict(macros={'m': ['{'], 'o': ['[', '{'], 'z': []}, envs={'e': dict(args=[], body='nodes')},
                specials={'~': [], '!': [], '~~': [], '!!': [], '!!!': []}, later=['~~', '!!', '!!!'],
                unknown_macro=True, unknown_env=True),
    'knounk': dict(
        macros={'m': ['{'], 'o': ['[', '{'], 'z': []},
        envs={'e': dict(args=['[', '{'], body='nodes')},
        specials={'~': []},
        unknown_macro=False, unknown_env=False),
}

_desc_cache = {}


def describe(name):
    if name in _desc_cache:
        return _desc_cache[name]
    if name == 'default':
        d = extract_default()
    else:
        raw = RAW[name]
        d = dict(macros={k: [parse_argspec(x) for x in v] for k, v in raw['macros'].items()},
                 envs={k: dict(args=[parse_argspec(x) for x in v['args']], body=v['body'])
                       for k, v in raw['envs'].items()},
                 specials={k: [parse_argspec(x) for x in v] for k, v in raw['specials'].items()},
                 unknown_macro=raw['unknown_macro'], unknown_env=raw['unknown_env'], untranslatable=[],
                 sticky=raw.get('sticky', {}), later=raw.get('later', []))
    _desc_cache[name] = d
    return d


def _real_argspec(a):
    from pylatexenc.latexnodes import LatexArgumentSpec, ParsingStateDeltaEnterMathMode, ParsingStateDeltaLeaveMathMode
    from pylatexenc.latexnodes.parsers import LatexStandardArgumentParser
    x = (a['k'] if a['k'] not in 'trd' else a['k'] + chr(a['a']) + (chr(a['b']) if a['k'] in 'rd' else ''))
    x = {'m': '{', 'o': '[', 's': '*'}.get(x, x)
    if a['k'] == 'e':
        x = 'e{%s}' % a['chars']
    if a['k'] == 'any':
        x = a['spec']
    delta = None
    if a['delta'] == 'text':
        delta = ParsingStateDeltaLeaveMathMode()
    elif a['delta'] == 'math':
        delta = ParsingStateDeltaEnterMathMode()
    parser = x if a['pre'] else LatexStandardArgumentParser(x, allow_pre_space=False)
    return LatexArgumentSpec(parser, parsing_state_delta=delta)


def build_dynamic(name):
    """'kdyn': frozen base .extended_with(environment g);  'kdyn2': add_context_category(None, ..., prepend=True).
    Environment g defines \\entry{}{} and the specials '!!' locally, for its body only."""
    from pylatexenc.macrospec import (MacroSpec, EnvironmentSpec, SpecialsSpec, LatexContextDb,
                                      ParsingStateDeltaExtendLatexContextDb)
    d = describe(name)
    base = LatexContextDb()
    base.add_context_category(
        'model',
        macros=[MacroSpec(k, [_real_argspec(a) for a in v]) for k, v in d['macros'].items()],
        environments=[EnvironmentSpec(k, [_real_argspec(a) for a in v['args']]) for k, v in d['envs'].items()],
        specials=[SpecialsSpec(k, [_real_argspec(a) for a in v]) for k, v in d['specials'].items()])
    base.set_unknown_macro_spec(MacroSpec(''))
    base.set_unknown_environment_spec(EnvironmentSpec(''))
    g = EnvironmentSpec('g', body_parsing_state_delta=ParsingStateDeltaExtendLatexContextDb(
        extend_latex_context=dict(macros=[MacroSpec('entry', '{{')], specials=[SpecialsSpec('!!')])))
    if name == 'kdyn':
        base.freeze()
        db = base.extended_with(environments=[g])
    else:
        base.add_context_category(None, environments=[g], prepend=True)
        db = base
    db.freeze()
    return db


def build(name, alias_spelling=False):
    """Real LatexContextDb for a hand-written model context."""
    from pylatexenc.macrospec import MacroSpec, EnvironmentSpec, SpecialsSpec, LatexContextDb
    if name in ('kdyn', 'kdyn2'):
        return build_dynamic(name)
    d = describe(name)
    db = LatexContextDb()
    from pylatexenc.latexnodes import ParsingStateDelta
    REAL_ATTR = {'en_comments': 'enable_comments', 'en_math': 'enable_math', 'en_groups': 'enable_groups',
                 'en_specials': 'enable_specials', 'en_envs': 'enable_environments', 'en_macros': 'enable_macros'}

    class StickyMacroSpec(MacroSpec):
        def __init__(self, name, args, fields):
            super(StickyMacroSpec, self).__init__(name, args)
            self._verif_fields = dict((REAL_ATTR[f], x) for f, x in fields.items())

        def make_after_parsing_state_delta(self, parsed_node, latex_walker):
            return ParsingStateDelta(set_attributes=dict(self._verif_fields))
    sticky = d.get('sticky', {})
    db.add_context_category(
        'model',
        macros=[(StickyMacroSpec(k, [_real_argspec(a) for a in v], sticky[k]) if k in sticky else
                 MacroSpec(k, [_real_argspec(a) for a in v])) for k, v in d['macros'].items()],
        environments=[EnvironmentSpec(k, [_real_argspec(a) for a in v['args']],
                                      is_math_mode=(v['body'] == 'math')) for k, v in d['envs'].items()],
        specials=[SpecialsSpec(k, [_real_argspec(a) for a in v]) for k, v in d['specials'].items()
                  if k not in d.get('later', [])])
    if d.get('later'):
        db.add_context_category('later', specials=[SpecialsSpec(k, [_real_argspec(a) for a in v])
                                                   for k, v in d['specials'].items() if k in d['later']])
    if d['unknown_macro']:
        db.set_unknown_macro_spec(MacroSpec(''))
    if d['unknown_env']:
        db.set_unknown_environment_spec(EnvironmentSpec(''))
    db.freeze()
    return db


# ---------------------------------------------------------------------------
# (D) extraction of the default database

def _translate_args(spec):
    """spec object -> (list of arg records, body kind) or None if not representable"""
    from pylatexenc.latexnodes import ParsingStateDeltaEnterMathMode, ParsingStateDeltaLeaveMathMode
    ap = spec.arguments_parser
    body = 'math' if getattr(spec, 'is_math_mode', None) else 'nodes'
    tn = type(ap).__name__
    if tn == 'LatexNoArgumentsParser':
        return [], body
    if tn == 'LatexArgumentsParser':
        out = []
        for a in ap.arguments_spec_list:
            p = a.parser
            pre = True
            if not isinstance(p, str):
                if type(p).__name__ != 'LatexStandardArgumentParser':
                    return None
                pre = bool(p.allow_pre_space)
                if p.return_full_node_list or not p.expression_single_token_requiring_arg_is_error:
                    return None
                p = p.arg_spec
            dl = a.parsing_state_delta
            if dl is None:
                delta = ''
            elif isinstance(dl, ParsingStateDeltaEnterMathMode):
                delta = 'math'
            elif isinstance(dl, ParsingStateDeltaLeaveMathMode):
                delta = 'text'
            else:
                return None
            try:
                rec = parse_argspec(p)
            except (ValueError, IndexError):
                return None
            rec['delta'] = delta
            rec['pre'] = pre
            out.append(rec)
        return out, body
    if tn == '_LegacyPyltxenc2MacroArgsParserWrapper':
        lp = ap.args_parser
        if type(lp).__name__ == 'VerbatimArgsParser' and not lp.verbatim_argspec:
            if lp.verbatim_arg_type == 'verb-macro':
                return [A('verb')], body
            if lp.verbatim_arg_type == 'verbatim-environment' and lp.verbatim_environment_name == spec.environmentname:
                return [], 'legacyverb'
        return None
    return None


def extract_default():
    from pylatexenc.latexwalker import get_default_latex_context_db
    db = get_default_latex_context_db()
    d = dict(macros={}, envs={}, specials={}, untranslatable=[],
             unknown_macro=db.unknown_macro_spec is not None, unknown_env=db.unknown_environment_spec is not None)
    seen = set()
    for sp in db.iter_macro_specs():
        if sp.macroname in seen:
            continue
        seen.add(sp.macroname)
        if db.get_macro_spec(sp.macroname) is not sp:
            continue
        r = _translate_args(sp)
        if r is None:
            d['untranslatable'].append('\\' + sp.macroname)
        else:
            d['macros'][sp.macroname] = r[0]
    for sp in db.iter_environment_specs():
        if db.get_environment_spec(sp.environmentname) is not sp:
            continue
        r = _translate_args(sp)
        if r is None:
            d['untranslatable'].append('env:' + sp.environmentname)
        else:
            d['envs'][sp.environmentname] = dict(args=r[0], body=r[1])
    for sp in db.iter_specials_specs():
        if sp.specials_chars == '\n\n':
            continue
        r = _translate_args(sp)
        if r is None:
            d['untranslatable'].append('specials:' + sp.specials_chars)
        else:
            d['specials'][sp.specials_chars] = r[0]
    for u, key in ((db.unknown_macro_spec, 'unknown_macro'), (db.unknown_environment_spec, 'unknown_env')):
        if u is not None and _translate_args(u) != ([], 'nodes'):
            d['untranslatable'].append(key)
    return d


# ---------------------------------------------------------------------------
# TLA+ text

def _arg_tla(a):
    return '[k |-> "%s", delta |-> "%s", a |-> %d, b |-> %d, pre |-> %s]' % (
        a['k'], a['delta'], a['a'], a['b'], 'TRUE' if a['pre'] else 'FALSE')


def _sig_tla(args):
    return '<<' + ', '.join(_arg_tla(a) for a in args) + '>>'


def _fun(pairs, empty='[x \\in {} |-> <<>>]'):
    if not pairs:
        return empty
    return ' @@ '.join('(%s :> %s)' % (k, v) for k, v in pairs)


def names_in_atoms(name, atoms, K):
    d = describe(name)
    macs, envs = formable_names(atoms, K)
    return (macs & set(d['macros'])), (envs & set(d['envs']))


def formable_names(atoms, K):
    """Macro / environment names that strings of <= K atoms can contain.  For the extracted default
    database the signature table handed to TLC is restricted to these names (the full table makes TLC
    slow).  Sound because every name that the atoms can *form* -- inside one atom, or by a bare escape
    atom followed by the first character(s) of the next atoms, or by letters appended to a control word --
    is enumerated here and kept whenever the database knows it."""
    import re
    import itertools
    letters = [a for a in atoms if len(a) == 1 and a.isalpha()]
    words = {''}
    for k in range(1, K + 1):
        for tup in itertools.product(letters, repeat=k):
            words.add(''.join(tup))
    macs, envs = set(), set()
    for a in atoms:
        for m in re.finditer(r'\\([A-Za-z]+|.)', a, re.S):
            base = m.group(1)
            if base.isalpha() and m.end() == len(a):
                for w in words:                    # letters appended to a trailing control word
                    macs.add(base + w)
            else:
                macs.add(base)
        for m in re.finditer(r'\\(?:begin|end)\s*\{([^}]*)\}', a):
            envs.add(m.group(1))
    if any(a.endswith('\\') and not a.endswith('\\\\') for a in atoms):
        for a in atoms:                             # bare escape + first character(s) of the next atom
            c = a[0]
            if c.isalpha():
                for w in words:
                    macs.add(w) if w else None
                    macs.add(c + w)
            else:
                macs.add(c)
    for w in words:
        if w:
            envs.add(w)
    return macs, envs


def tla_defs(name, prefix='', only=None):
    d = describe(name)
    macros, envs = d['macros'], d['envs']
    if only is not None:
        macros = {k: v for k, v in macros.items() if k in only[0]}
        envs = {k: v for k, v in envs.items() if k in only[1]}
    ms = _fun([(tla_seq(k), _sig_tla(v)) for k, v in sorted(macros.items())])
    es = _fun([(tla_seq(k), '[args |-> %s, body |-> "%s"]' % (_sig_tla(v['args']), v['body']))
               for k, v in sorted(envs.items())], empty='[x \\in {} |-> [args |-> <<>>, body |-> "nodes"]]')
    ss = _fun([(tla_seq(k), _sig_tla(v)) for k, v in sorted(d['specials'].items()) if v])
    sticky = {k: v for k, v in d.get('sticky', {}).items() if k in macros}
    sk = _fun([(tla_seq(k), '[' + ', '.join('%s |-> %s' % (f, tla_seq(x)) for f, x in sorted(v.items())) + ']')
               for k, v in sorted(sticky.items())], empty='[x \\in {} |-> [en_comments |-> TRUE]]')
    return ('%sMacroSigDef == %s\n%sEnvSigDef == %s\n%sSpecSigDef == %s\n%sStickyDef == %s\n' % (
        prefix, ms, prefix, es, prefix, ss, prefix, sk))


def cfg_constants(name, prefix=''):
    d = describe(name)
    return ('  MacroSig <- %sMacroSigDef\n  EnvSig <- %sEnvSigDef\n  SpecSig <- %sSpecSigDef\n  Sticky <- %sStickyDef\n'
            '  HasUnknownMacro = %s\n  HasUnknownEnv = %s\n' % (
                prefix, prefix, prefix, prefix, 'TRUE' if d['unknown_macro'] else 'FALSE',
                'TRUE' if d['unknown_env'] else 'FALSE'))

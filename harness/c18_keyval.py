# -*- coding: utf-8 -*-
"""C18, key-value parsing: NodeSplit!KeyVal (scan machine) against the statement KeyValAgrees (TLC),
and against the real parse_keyval_content() (exact)."""
from __future__ import annotations

from . import common
from .common import Consumer, uncodes, guarded
from . import c18

POLICIES = ['concatenate', 'error', 'first', 'last']

CFG = """CONSTANTS
  Words <- WordsDef
  MaxItems = %(maxitems)d
  Seps <- SepsDef
  MaxSplits = {99}
  Op = "keyval"
  FirstItems <- FirstDef
  Policies = {"concatenate", "error", "first", "last"}
  VKeyVal = "%(variant)s"
SPECIFICATION Spec
INVARIANT KeyValAgrees
%(emit)s
CHECK_DEADLOCK FALSE
"""
KV_WORDS = ['a', ',', '=', 'a=', '=a', 'a,', ',a', 'a=a', 'a,a', '=,', 'a==', ',a=', 'b', 'a=b,', ',a=b']


def jobs(maxitems, words, variant='intended', emit=True):
    out = []
    firsts = list(words) + ['opaque', 'comment', 'none']
    seps = c18.sep_tla(('str', ','))
    for f in firsts:
        text = c18.MC % dict(words=', '.join(common.tla_seq(w) for w in words), seps=seps, first=c18.templ_tla(f))
        out.append(dict(payload=dict(), main='MC_NodeSplitRun', mc=text,
                        cfg=CFG % dict(maxitems=maxitems, variant=variant, emit='INVARIANT Emit' if emit else ''),
                        tlc_kw=dict(timeout=3000, xmx='2g')))
    return out


class KvConsumer(Consumer):
    def feed(self, rec):
        if rec['keepempty'] or rec['skipnone']:
            return                       # (these two switches do not exist for key-value parsing)
        self.n += 1
        st, val = guarded(c18.build_real, rec['items'])
        if st != 'ok':
            if isinstance(val, common.MachineryError):
                raise val
            self.violation('outcome', dict(items=rec['items'], kv=True), detail=dict(status=st, exc=repr(val)), sig=dict(clause='outcome'))
            return
        w, lst, src = val
        if src.count(',') + src.count('=') >= 2:
            self.nontrivial += 1
        self.sample(dict(src=src, kv=True, model={p: [(uncodes(k), len(v)) for k, v in rec['res'][p]['kv']] for p in ('last',)}), every=4999)
        for p in POLICIES:
            m = rec['res'][p]
            case = dict(src=src, items=[(it['k'], uncodes(it['txt'])) for it in rec['items']], policy=p, kv=True)
            st, d = guarded(lst.parse_keyval_content, repeated_key_aggregate_action=p)
            self.counters['keyval_calls'] += 1
            if st == 'exc':
                if isinstance(d, ValueError) and m['err'] == 'ValueError':
                    self.counters['same:error'] += 1
                    continue
                self.violation('keyval-raises', case, detail=dict(exc=repr(d), model_err=m['err']),
                               sig=dict(clause='keyval-raises', exc=type(d).__name__, policy=p))
                return
            if st != 'ok' or m['err']:
                self.violation('keyval-outcome', case, detail=dict(status=st, model_err=m['err']), sig=dict(clause='keyval-outcome', policy=p))
                return
            got = []
            for k, v in d.items():
                nodes = v.nodelist if hasattr(v, 'nodelist') else list(v)
                got.append([common.codes(k), [c18.proj(n, src) for n in nodes]])
            if got != m['kv']:
                self.violation('keyval-differs', case, detail=dict(model=m['kv'], impl=got), sig=dict(clause='keyval-differs', policy=p))
                return
        self.counters['same'] += 1


def run(ctx):
    quick = ctx.tier == 'quick'
    rc_jobs = jobs(2, ['a', '=a', 'a,'], variant='as_implemented', emit=False)
    r = common.run_tlc(rc_jobs[1]['main'], rc_jobs[1]['cfg'], mc_text=rc_jobs[1]['mc'], workers=2, timeout=300)
    ctx.add_tlc(r, 'control: key-value parsing as implemented (empty key dropped, raw list under "first")')
    ctx.control('as_implemented key-value parsing violates KeyValAgrees', r.violated == 'KeyValAgrees', str(r.violated) + str(r.error))
    m = common.run_shards(ctx, ('harness.c18_keyval', 'KvConsumer'), jobs(3 if quick else 4, KV_WORDS if quick else KV_WORDS[:9]),
                          what='NodeSplitRun parse_keyval_content')
    ctx.add_merged(m)
    ctx.log('parse_keyval_content: %d lists x 4 policies, %d identical' % (m['n'], m['counters'].get('same', 0)))


def replay(case):
    c = case['case']
    items = [dict(k=k, txt=common.codes(t)) for k, t in c['items']]
    w, lst, src = c18.build_real(items)
    st, d = guarded(lst.parse_keyval_content, repeated_key_aggregate_action=c['policy'])
    print(repr(src), c['policy'], '->', st, d)
    return st == 'ok' and case.get('clause') not in ('keyval-differs',)

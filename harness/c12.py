# -*- coding: utf-8 -*-
"""C12 -- latex2text content filters: comments, math modes, discards.

Documents come from spec/DocWriter.tla: every comment carries a unique marker word
(%cN), every formula / math environment writes marker words (xN) and records its exact
source span, constructs declared as discarded (\\hspace{..}, macros unknown to the text
database) contain marker words (dN).  Markers sit at every position the writer reaches:
inside mandatory and optional arguments, between a call and its argument, in
environments, after bare macros, as the last token without newline.  Tier A is
spec/Filters.tla: comment markers appear iff keep_comments; math_mode 'remove' hides
every formula marker, 'verbatim' shows every formula's exact source, 'with-delimiters'
shows open..marker..close; discarded markers never appear.  The real latex_to_text output
of every document under rotating option sets (4 math modes x keep_comments x whitespace
policies x fill_text) is validated by TLC against Filters.tla.
Comments are only written where the conversion renders the surrounding text (the construct sets contain
no macro whose replacement drops an argument).
"""
from __future__ import annotations

import re

from . import common, docwriter, contexts
from .common import Consumer, uncodes, codes, guarded

LEVEL = 'model_checking'

OPTS = [dict(math_mode=mm, keep_comments=kc, strict_latex_spaces=sp, fill_text=ft)
        for mm in ('text', 'with-delimiters', 'verbatim', 'remove') for kc in (False, True)
        for sp in ('macros', 'based-on-source', True) for ft in (None, 30)]
_cv = {}


def conv(i, textctx=None):
    from pylatexenc.latex2text import LatexNodes2Text
    if (i, textctx) not in _cv:
        kw = dict(OPTS[i])
        if textctx == 'custom':
            kw['latex_context'] = custom_textdb()
        _cv[(i, textctx)] = LatexNodes2Text(**kw)
    return _cv[(i, textctx)]


def custom_textdb():
    """the default text database with user declarations in front: \\emph{..} and the abstract / theorem
    environments are declared as discarded"""
    from pylatexenc.latex2text import get_default_latex_context_db, MacroTextSpec, EnvironmentTextSpec
    db = get_default_latex_context_db()
    db.add_context_category('verif-discard', prepend=True,
                            macros=[MacroTextSpec('emph', discard=True)],
                            environments=[EnvironmentTextSpec('abstract', discard=True),
                                          EnvironmentTextSpec('theorem', discard=True)])
    return db


SHARDS = [
    dict(macros=['textbf', 'frac'], envs=['equation'], specials=['~'], argless=['alpha'], discard=[]),
    dict(macros=['item', 'emph'], envs=['abstract'], specials=[], argless=[], discard=[]),
    dict(macros=['hspace', 'textbf'], envs=[], specials=['--'], argless=[], discard=['hspace']),
    dict(macros=['documentclass', 'mbox'], envs=['align'], specials=[], argless=[], discard=['documentclass', 'mbox']),
    dict(macros=['text', 'label'], envs=['abstract'], specials=[], argless=[], discard=['label']),
    # a macro and an environment of the same name in one document (plain-TeX style \equation ... next to \begin{equation})
    dict(macros=['emph'], envs=['equation', 'align'], specials=[], argless=['equation', 'align'], discard=[]),
    dict(macros=['textbf'], envs=['alignat', 'flalign*'], specials=[], argless=[], discard=[]),
    # a table environment laid out by a formatter function: comments in cells, the column specification is dropped
    dict(macros=['emph'], envs=['array'], specials=['&'], argless=[], discard=['args:array']),
    # the line-break macro (its optional length argument is dropped by the conversion): comments right after it
    dict(macros=['\\', 'textbf'], envs=[], specials=[], argless=[], discard=['args:\\']),
    # user-declared discards (custom text database): a macro and two environments
    dict(macros=['emph', 'textbf'], envs=['abstract'], specials=[], argless=[], discard=['emph', 'abstract'], textctx='custom'),
    dict(macros=['textit'], envs=['theorem', 'abstract'], specials=[], argless=[], discard=['theorem', 'abstract'], textctx='custom'),
]
FEATURES = ['group', 'math', 'display', 'comment', 'par', 'space', 'commenteof', 'argtoken']


def collect(tree, src):
    """formulas (markers, src span, delimiters) and discarded markers from the written tree"""
    formulas = []
    discarded = []

    def markers(nodes, out, prefix):
        for n in nodes:
            if n['k'] == 'chars' and uncodes(n['name'])[:1] == prefix:
                out.append(n['name'])
            for a in n.get('args', []):
                markers(a, out, prefix)
            markers(n.get('body', []), out, prefix)

    def walk(nodes, disc):
        for n in nodes:
            if n['k'] == 'math':
                ms = []
                markers(n['body'], ms, 'x')
                formulas.append(dict(markers=ms, src=codes(src[n['name'][0]:n['name'][1]]), open=n['delims'][0], close=n['delims'][1]))
            elif n['k'] == 'env' and n['delims'] and n.get('ismath'):
                pass
            if n['k'] == 'env' and len(n['delims']) == 2 and uncodes(n['name']) in MATHENVS:
                ms = []
                markers(n['body'], ms, 'x')
                nm = uncodes(n['name'])
                formulas.append(dict(markers=ms, src=codes(src[n['delims'][0]:n['delims'][1]]),
                                     open=codes('\\begin{%s}' % nm), close=codes('\\end{%s}' % nm)))
            if n['k'] in ('env', 'macro') and ('args:' + uncodes(n['name'])) in disc:
                ms = []
                for a in n['args']:
                    markers(a, ms, 'd')
                discarded.extend(ms)
            if n['k'] in ('macro', 'env') and uncodes(n['name']) in disc:
                ms = []
                for a in n['args']:
                    markers(a, ms, 'd')
                markers(n.get('body', []), ms, 'd')
                discarded.extend(ms)
            for a in n.get('args', []):
                walk(a, disc)
            walk(n.get('body', []), disc)
    return formulas, discarded, walk


# every environment the documentation lists as a math environment (frozen list, parsecommon.DOC_MATH_ENVS) that the
# databases know; 'split' only occurs inside another math environment, 'math'/'displaymath' are unknown to both databases
from .parsecommon import DOC_MATH_ENVS
MATHENVS = tuple(e for e in DOC_MATH_ENVS if e not in ('split', 'math', 'displaymath'))
# documents written with {equation} are also converted with the name replaced by each other argument-less math environment
RENAME_EQUATION = [e for e in MATHENVS if e not in ('equation', 'alignat', 'alignat*')]


class FilterConsumer(Consumer):
    def __init__(self, payload):
        super().__init__(payload)
        self.traces = []

    def feed(self, rec):
        if rec['faulted']:
            return
        self.n += 1
        src = uncodes(rec['src'])
        comments = [codes(m) for m in re.findall(r'%(c\d)', src)]
        formulas, discarded, walk = collect(rec['tree'], src)
        walk(rec['tree'], set(self.payload['discard']))
        if not comments and not formulas and not discarded:
            self.counters['no_markers'] += 1
            return
        self.nontrivial += 1
        self.sample(dict(src=src, comments=[uncodes(c) for c in comments], formulas=[uncodes(f['src']) for f in formulas],
                         discarded=[uncodes(d) for d in discarded]), every=997)
        # comments written between a call and its argument are not part of the written tree
        intree = []

        def cm(nodes):
            for n in nodes:
                if n['k'] == 'comment':
                    intree.append(n['name'])
                for a in n.get('args', []):
                    cm(a)
                cm(n.get('body', []))
        cm(rec['tree'])
        argphase = [c for c in comments if c not in intree]
        variants = [(src, formulas)]
        if '{equation}' in src:
            # instantiated replay: the same document with another math environment of the same signature
            e = RENAME_EQUATION[self.n % len(RENAME_EQUATION)]
            ren = lambda x: x.replace('{equation}', '{%s}' % e)
            variants.append((ren(src), [dict(f, src=codes(ren(uncodes(f['src']))), open=codes(ren(uncodes(f['open']))),
                                             close=codes(ren(uncodes(f['close'])))) for f in formulas]))
            self.counters['renamed'] += 1
        for vsrc, vformulas in variants:
            for k in range(4):
                i = (self.n * 7 + k * 13) % len(OPTS)
                o = OPTS[i]
                st, val = guarded(conv(i, self.payload.get('textctx')).latex_to_text, vsrc, tolerant_parsing=False)
                case = dict(src=vsrc, options=o, textctx=self.payload.get('textctx'))
                self.counters['renders'] += 1
                if st != 'ok':
                    self.violation('outcome', case, detail=dict(status=st, exc=repr(val)), sig=dict(clause='outcome', exc=type(val).__name__))
                    continue
                self.traces.append((case, dict(out=codes(val), keep_comments=o['keep_comments'], math_mode=o['math_mode'],
                                               comments=comments, formulas=vformulas, discarded=discarded,
                                               argphase=argphase)))

    def result(self):
        r = super().result()
        r['extra'] = dict(traces=self.traces)
        return r


def run(ctx):
    quick = ctx.tier == 'quick'
    n = 4 if quick else 5
    ctx.rule = ('TLC enumerates every derivation of the document writer of <= %d opening actions over 5 construct sets with '
                'comments, inline/display math, math environments and discarded macros, all carrying marker words; each '
                'document is converted under 4 rotating option sets out of 48 and the outputs are judged by TLC against '
                'Filters.tla. Non-trivial: the document carries at least one marker.' % n)
    items = []
    jobs = []
    d = contexts.describe('default')
    for sh in SHARDS:
        for j in docwriter.jobs('default', [sh], n, FEATURES, False, True):
            j['payload'] = dict(ctx='default', discard=sh['discard'], textctx=sh.get('textctx'))
            jobs.append(j)
    m = common.run_shards(ctx, ('harness.c12', 'FilterConsumer'), jobs, what='DocCheck default (marked documents), <= %d actions' % n)
    ctx.add_merged(m, validated=False)
    for ex in m['extra']:
        items.extend(ex.get('traces', []))
    ctx.log('%d marked documents, %d conversions' % (m['nontrivial'], len(items)))
    flags, diags = common.validate_traces(ctx, 'Filters', [it[1] for it in items], what='C->S Filters acceptor', chunk=30000)
    ctx.traces_validated += len(items)
    for idx, (case, tr) in enumerate(items):
        if not flags[idx]:
            dg = diags.get(idx, {})
            out = uncodes(tr['out'])
            lost = [uncodes(c) for c in tr['comments'] if tr['keep_comments'] and ('%' + uncodes(c)) not in out]
            where = ''
            if lost and all(codes(c) in tr['argphase'] for c in lost):
                where = 'between-call-and-argument'
            ctx.violation('acceptor-rejects', dict(case, out=out), detail=dict(dg, lost_comments=lost),
                          sig=dict(clause='acceptor-rejects',
                                   failed=','.join(dg.get('failed_clauses', [])) or ('CommentsKept' if lost else '?'),
                                   lost_comment_position=where, math_mode=tr['math_mode'], keep_comments=tr['keep_comments']))
    ctx.exhaustive = True


def replay(case):
    from pylatexenc.latex2text import LatexNodes2Text
    c = case['case']
    kw = dict(c['options'])
    if c.get('textctx') == 'custom':
        kw['latex_context'] = custom_textdb()
    st, val = guarded(LatexNodes2Text(**kw).latex_to_text, c['src'], tolerant_parsing=False)
    print(repr(c['src']), c['options'], '->', st, repr(val))
    return st == 'ok' and val != c.get('out')

# -*- coding: utf-8 -*-
"""C17 -- a derived parsing state behaves exactly like a freshly built one.

spec/PState.tla models ParsingState objects as (public fields, cached tables)
and sub_context() with its per-group "recompute or inherit" rules.  TLC checks
Cached (tables = Fresh(fields)) and BehavesLikeFresh for every chain of
sub_context() calls up to the bound; the as_implemented variant (stale expected
closing delimiter) must give a counterexample.  Binding S->C: every distinct
model state is printed with a shortest chain; the chain is applied to a real
ParsingState; then (Tier A, on the implementation) the derived state and
ParsingState(**derived.get_fields()) must tokenize and parse every string of the
test alphabet identically, every ancestor's get_fields() must be unchanged, and
(binding) the fields and probe token streams must be the model's.
"""
from __future__ import annotations

import itertools

from . import common, pstate, proj
from .common import Consumer, guarded, tla_seq, uncodes

LEVEL = 'model_checking'

DOM = dict(
    in_math=[False, True],
    mdelim=['', '$', '\\(', '\\[', '!'],
    inline=[[('$', '$'), ('\\(', '\\)')], [('$', '$')], [('\\(', '\\)')], [('!', '!')]],
    display=[[('$$', '$$'), ('\\[', '\\]')], [('\\[', '\\]')]],
    groups=[[('{', '}')], [('{', '}'), ('[', ']')], [('{', '}'), ('(', ')')], [('{', '}'), ('[', ']'), ('(', ')')]],
    en_math=[True, False], en_groups=[True, False],
    esc=['\\', '!'], cmt=['%', '#'], forbidden=['', '$'],
)
MATHGROUP = ['in_math', 'mdelim', 'inline', 'display']
KWNAME = dict(in_math='in_math_mode', mdelim='math_mode_delimiter', inline='latex_inline_math_delimiters',
              display='latex_display_math_delimiters', groups='latex_group_delimiters', en_math='enable_math',
              en_groups='enable_groups', esc='macro_escape_char', cmt='comment_start',
              forbidden='forbidden_characters')
TEST_ATOMS = ['a', '$', '\\(', '\\)', '\\[', '\\]', '[', ']', '(', ')', '!', '#', '%', '{', '}', '\\x']
PROBES = ['$a$', '\\)a\\(', '\\]$$', ']a[', ')(', '!a!', '#c\n%d', '{$}', 'a$$b', '$$', '\\[\\]']


def tla_val(field, v):
    if field in ('in_math', 'en_math', 'en_groups'):
        return 'TRUE' if v else 'FALSE'
    if field in ('mdelim', 'cmt'):
        return tla_seq(v)
    if field == 'esc':
        return str(ord(v))
    if field == 'forbidden':
        return '{' + ', '.join(str(ord(c)) for c in v) + '}'
    if field in ('inline', 'display'):
        return tla_seq([[a, b] for a, b in v]) if v else '<<>>'
    if field == 'groups':
        return tla_seq([[ord(a), ord(b)] for a, b in v])
    raise KeyError(field)


def all_changes(thorough):
    out = []
    for f, vals in DOM.items():
        for v in vals:
            out.append({f: v})
    for f1, f2 in itertools.combinations(MATHGROUP, 2):
        for v1 in DOM[f1]:
            for v2 in DOM[f2]:
                out.append({f1: v1, f2: v2})
    for v1 in DOM['in_math']:
        for v2 in DOM['mdelim']:
            for v3 in DOM['inline']:
                out.append({'in_math': v1, 'mdelim': v2, 'inline': v3})
    if thorough:
        for v1 in DOM['groups']:
            for v2 in DOM['inline']:
                out.append({'groups': v1, 'inline': v2})
    return out


def changes_tla(chs):
    return '{' + ', '.join('[' + ', '.join('%s |-> %s' % (k, tla_val(k, v)) for k, v in ch.items()) + ']'
                           for ch in chs) + '}'


MC = """---- MODULE MC_PState ----
EXTENDS PState
RootDef == %(root)s
ChangesDef == %(changes)s
ProbesDef == %(probes)s
====
"""
CFG = """CONSTANTS
  VTok = "intended"
  VSub = "%(vsub)s"
  Root <- RootDef
  Changes <- ChangesDef
  Probes <- ProbesDef
  MaxDepth = %(depth)d
SPECIFICATION Spec
%(view)s
INVARIANT Cached
INVARIANT BehavesLikeFresh
%(emit)s
CHECK_DEADLOCK FALSE
"""


ROOTS = {
    'default': dict(),
    'math_dollar': dict(in_math=True, mdelim='$'),
    'math_paren': dict(in_math=True, mdelim='\\('),
    'math_nodelim_brackets': dict(in_math=True, mdelim='', groups=[('{', '}'), ('[', ']')]),
}


def mc(thorough, rootname='default'):
    root = pstate.make(ctx='none', **ROOTS[rootname])
    return MC % dict(root=pstate.tla_record(root), changes=changes_tla(all_changes(thorough)),
                     probes='<< ' + ', '.join(tla_seq(p) for p in PROBES) + ' >>')


# ---------------------------------------------------------------------------

STD_NONE = dict(inline=[('$', '$'), ('\\(', '\\)')], display=[('$$', '$$'), ('\\[', '\\]')], groups=[('{', '}')])


def py_change(ch, via_none=False):
    """model change record (JSON) -> sub_context kwargs.  via_none: a delimiter list equal to the documented standard
    value is requested the documented way, by passing None."""
    kw = {}
    for k, v in ch.items():
        if k in ('in_math', 'en_math', 'en_groups'):
            val = bool(v)
        elif k == 'mdelim':
            val = uncodes(v) or None
        elif k == 'cmt':
            val = uncodes(v)
        elif k == 'esc':
            val = chr(v)
        elif k == 'forbidden':
            val = ''.join(chr(c) for c in v)
        elif k in ('inline', 'display'):
            val = [(uncodes(a), uncodes(b)) for a, b in v]
        elif k == 'groups':
            val = [(chr(a), chr(b)) for a, b in v]
        if via_none and k in STD_NONE and val == STD_NONE[k]:
            val = None
        kw[KWNAME[k]] = val
    return kw


def pub_fields(ps):
    return dict(in_math=bool(ps.in_math_mode), mdelim=common.codes(ps.math_mode_delimiter or ''),
                inline=[[common.codes(a), common.codes(b)] for a, b in ps.latex_inline_math_delimiters],
                display=[[common.codes(a), common.codes(b)] for a, b in ps.latex_display_math_delimiters],
                groups=[[ord(a), ord(b)] for a, b in ps.latex_group_delimiters],
                en_math=bool(ps.enable_math), en_groups=bool(ps.enable_groups), esc=ord(ps.macro_escape_char),
                cmt=common.codes(ps.comment_start), forbidden=sorted(ord(c) for c in ps.forbidden_characters))


def token_stream(s, ps):
    from pylatexenc.latexnodes import LatexTokenReader, LatexWalkerTokenParseError, LatexWalkerEndOfStream
    r = LatexTokenReader(s, tolerant_parsing=False)
    out = []
    for _ in range(len(s) + 2):
        try:
            t = r.next_token(ps)
        except LatexWalkerEndOfStream as e:
            out.append(dict(t='EOS', final=len(e.final_space or '')))
            return out
        except LatexWalkerTokenParseError as e:
            out.append(dict(t='ERR', ph=pstate.proj_token(e.recovery_token_placeholder),
                            resume=e.recovery_token_at_pos, pos=e.pos))
            return out
        out.append(pstate.proj_token(t))
    out.append(dict(t='RUNAWAY'))
    return out


def parse_obs(s, ps):
    from pylatexenc.latexwalker import LatexWalker
    from pylatexenc.latexnodes import LatexWalkerParseError
    from pylatexenc.latexnodes.parsers import LatexGeneralNodesParser
    w = LatexWalker(s, tolerant_parsing=False)
    try:
        nl, _ = w.parse_content(LatexGeneralNodesParser(), parsing_state=ps.sub_context(s=s) if False else ps)
    except LatexWalkerParseError as e:
        return ('error', e.pos)
    return ('tree', proj.proj_list(nl))


_strings = {}


def test_strings(K):
    if K not in _strings:
        out = ['']
        for k in range(1, K + 1):
            out += [''.join(t) for t in itertools.product(TEST_ATOMS, repeat=k)]
        _strings[K] = list(dict.fromkeys(out))
    return _strings[K]


def check_state(rec, K):
    """Returns (verdict, detail): 'same' | 'drift' | violation clause."""
    from pylatexenc.latexnodes import ParsingState
    has_std = any(k in STD_NONE and py_change({k: v})[KWNAME[k]] == STD_NONE[k] for ch in rec['hist'] for k, v in ch.items())
    if has_std and not rec.get('_via_none'):
        # the same chain with standard delimiter lists requested as None
        v, d = check_state(dict(rec, _via_none=True), K)
        if v not in ('same', 'drift'):
            return v, dict(d, requested_as_none=True)
    via_none = bool(rec.get('_via_none'))
    ps = pstate.real_state(pstate.make(ctx='none', **ROOTS[rec.get('root', 'default')]))
    chain = [ps]
    snaps = [dict(ps.get_fields())]
    intended = dict(ps.get_fields())           # the field values a caller asked for, step by step
    for ch in rec['hist']:
        kw = py_change(ch, via_none)
        ps = ps.sub_context(**kw)
        intended.update(kw)
        intended = dict(ParsingState(**intended).get_fields())     # with the constructor's own normalisation, step by step
        chain.append(ps)
        snaps.append(dict(ps.get_fields()))
    for o, snap in zip(chain, snaps):
        if o.get_fields() != snap:
            return 'ancestor-altered', dict(before=repr(snap), after=repr(o.get_fields()))
    # "a state constructed directly with the same field values": the values that were requested, not whatever the
    # derived object ended up holding
    fresh = ParsingState(**intended)
    for s in test_strings(K):
        a = token_stream(s, ps)
        b = token_stream(s, fresh)
        if a != b:
            return 'tokenizes-differently', dict(s=s, derived=a, fresh=b)
    parse_docs = (test_strings(1) + PROBES + ['$a$ \\(b\\)', '\\[a\\]', '[a]{b}(c)', '!a! #x']) if K >= 2 else \
        ['$a$ \\(b\\)', '\\[a\\]', '[a]{b}(c)', 'a$$b', '!a! #x']
    for s in parse_docs:
        a = parse_obs(s, ps)
        b = parse_obs(s, fresh)
        if a != b:
            return 'parses-differently', dict(s=s, derived=repr(a)[:300], fresh=repr(b)[:300])
    drift = None
    if pub_fields(ps) != rec['fields']:
        drift = dict(what='fields', impl=pub_fields(ps), model=rec['fields'])
    else:
        for p, mstream in zip(PROBES, rec['probes']):
            ms = []
            for t in mstream:
                t = dict(t)
                t.pop('what', None)
                ms.append(t)
            if token_stream(p, ps) != ms:
                drift = dict(what='probe', probe=p, impl=token_stream(p, ps), model=ms)
                break
    return ('drift', drift) if drift else ('same', None)


class ChainConsumer(Consumer):
    def feed(self, rec):
        self.n += 1
        case = dict(chain=[py_change(ch) for ch in rec['hist']])
        if len(rec['hist']) >= 2:
            self.nontrivial += 1
        self.sample(dict(chain=[{k: repr(v) for k, v in c.items()} for c in case['chain']],
                         fields=rec['fields']), every=1499)
        rec['root'] = self.payload.get('root', 'default')
        st, val = guarded(check_state, rec, self.payload['K'], cpu_seconds=60)
        if st != 'ok':
            self.violation('outcome', dict(hist=rec['hist']), detail=dict(status=st, exc=repr(val)),
                           sig=dict(clause='outcome', exc=type(val).__name__))
            return
        verdict, detail = val
        self.counters[verdict] += 1
        self.counters['strings_compared'] += len(test_strings(self.payload['K']))
        if verdict == 'drift':
            self.add_drift(dict(hist=rec['hist']), detail)
        elif verdict != 'same':
            keys = sorted(set(k for ch in rec['hist'] for k in ch))
            self.violation(verdict, dict(hist=rec['hist'], fields=rec['fields'], probes=rec['probes'], root=rec['root']), detail=detail,
                           sig=dict(clause=verdict))


def run(ctx):
    quick = ctx.tier == 'quick'
    K = 2 if quick else 3
    ctx.rule = ('TLC enumerates every chain of sub_context() calls up to the depth bound over %d change sets (every '
                'single field value, every pair/triple within the math-mode/delimiter group) and prints each distinct '
                'state with a shortest chain; the real derived state and a fresh state built from its get_fields() are '
                'compared on every string of <= %d atoms over a 16-atom alphabet containing every configured delimiter. '
                'Non-trivial: chain of >= 2 calls.' % (len(all_changes(not quick)), K))
    text = mc(not quick)
    rc = common.run_tlc('MC_PState', CFG % dict(vsub='as_implemented', depth=2, emit='', view='VIEW View'), mc_text=text, workers=4,
                        timeout=600)
    ctx.add_tlc(rc, 'control: VSub=as_implemented')
    ctx.control('stale expected-closing-delimiter table violates Cached', rc.violated in ('Cached', 'BehavesLikeFresh'),
                str(rc.violated))
    plans = [('default', 2, K, '', 'all chains <= 2 from the default root')]
    for rn in ('math_dollar', 'math_paren', 'math_nodelim_brackets'):
        plans.append((rn, 2, 1 if quick else 2, '', 'all chains <= 2 from root %s' % rn))
    if not quick:
        plans.append(('default', 3, 2, 'VIEW ViewLast', 'chains <= 3, one shortest chain per (state, last change)'))
        plans.append(('math_dollar', 3, 1, 'VIEW ViewLast', 'chains <= 3 from root math_dollar, one per (state, last change)'))
    for rootname, depth, kk, view, label in plans:
        job = dict(payload=dict(K=kk, root=rootname), main='MC_PState', mc=mc(not quick, rootname),
                   cfg=CFG % dict(vsub='intended', depth=depth, emit='INVARIANT Emit', view=view),
                   tlc_kw=dict(timeout=3000, workers=1, xmx='6g'))
        m = common.run_dispatch(ctx, ('harness.c17', 'ChainConsumer'), job, what='PState intended, ' + label, batch=40)
        ctx.add_merged(m)
        ctx.log('%s: %d chains replayed: %s' % (label, m['n'], {k: v for k, v in m['counters'].items() if not k.startswith('vsig')}))
    ctx.exhaustive = True
    ctx.assumptions += ['enable_* flags other than enable_math/enable_groups do not interact with cached tables '
                        '(they are read directly from the fields by the token reader)']


def replay(case):
    c = case['case']
    rec = dict(hist=c['hist'], fields=c.get('fields'), probes=c.get('probes', []), root=c.get('root', 'default'))
    verdict, detail = check_state(rec, 2)
    print('chain', [py_change(ch) for ch in c['hist']])
    print(verdict, detail)
    return verdict in ('same', 'drift')

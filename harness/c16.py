# -*- coding: utf-8 -*-
"""C16 -- the pylatexenc-2 compatible API gives the same results as the new parsers.

spec/LegacyApi.tla defines every legacy entry point as an invocation of an operator of
the reference parser from a start position plus the translation of its result to the
legacy (node, pos, len) convention / documented empty result; TLC evaluates every
(string, start position, call variant) up to the bound.  Binding S->C, exact: the real
legacy call must return the model's result (same nodes, position, length; raise exactly
when the model raises, at the same position).  read_max_nodes and get_latex_environment
are compared with the equivalent new-API invocation (differential).  Second half: every
argument string over {*, [, {} up to length 3/4, given through each spelling
(MacroSpec(name, spec), std_macro(name, spec), std_macro(name, opt, n),
MacroSpec(name, args_parser=spec), MacroSpec(name, args_parser=MacroStandardArgsParser(spec)),
std_environment), must yield the tree the reference parser predicts for the declared
signature, on every string of argument material.
"""
from __future__ import annotations

import itertools

from . import common, contexts, pstate, parsecommon as pc, proj
from .common import Consumer, uncodes, codes, tla_seq, guarded

LEVEL = 'model_checking'

ATOMS = ['a', ' ', '{', '}', '[', ']', '$', '%', '\n', '\\m', '\\o', '\\begin{e}', '\\end{e}', '\\(', '\\)', '(', ')', '\\z',
         '{]}', '{(a)}']      # compound atoms: a child construct holding characters of the requested outer delimiter pair
CALLS = [dict(f='token'), dict(f='expression', strict=True), dict(f='expression', strict=False),
         dict(f='braced', a='{', b='}'), dict(f='braced', a='[', b=']'), dict(f='braced', a='(', b=')'),
         dict(f='optarg'), dict(f='nodes', stopkind='none', stoparg=''), dict(f='nodes', stopkind='brace', stoparg='}'),
         dict(f='nodes', stopkind='brace', stoparg=']'), dict(f='nodes', stopkind='brace', stoparg=')'),
         dict(f='nodes', stopkind='env', stoparg='e'), dict(f='nodes', stopkind='math', stoparg='$'),
         dict(f='nodes', stopkind='math', stoparg='\\)'),
         # the documented 2-tuple spelling (opening, closing) of stop_upon_closing_brace: same meaning
         dict(f='nodes', stopkind='brace', stoparg='}', tuple=True), dict(f='nodes', stopkind='brace', stoparg=']', tuple=True),
         dict(f='nodes', stopkind='brace', stoparg=')', tuple=True)]

MC = """---- MODULE MC_LegacyApi ----
EXTENDS LegacyApi
AtomsDef == %(atoms)s
St0Def == %(st0)s
CallsDef == << %(calls)s >>
%(ctxdefs)s
====
"""
CFG = """CONSTANTS
  VTok = "intended"
  VMarker = "intended"
  VVerb = "intended"
  VPosNone = "intended"
  Atoms <- AtomsDef
  St0 <- St0Def
  Calls <- CallsDef
%(ctxconst)s
  K = %(K)d
  Shard = %(shard)d
  Tol = %(tol)s
SPECIFICATION Spec
INVARIANT Consistent
INVARIANT Emit
CHECK_DEADLOCK FALSE
"""


def call_tla(c):
    if c['f'] == 'token' or c['f'] == 'optarg':
        return '[f |-> "%s"]' % c['f']
    if c['f'] == 'expression':
        return '[f |-> "expression", strict |-> %s]' % ('TRUE' if c['strict'] else 'FALSE')
    if c['f'] == 'braced':
        return '[f |-> "braced", a |-> %d, b |-> %d]' % (ord(c['a']), ord(c['b']))
    return '[f |-> "nodes", stopkind |-> "%s", stoparg |-> %s]' % (c['stopkind'], tla_seq(c['stoparg']))


def mc_text():
    st = pstate.make(ctx='k', tol=False)
    return MC % dict(atoms=pstate.atoms_tla(ATOMS), st0=pstate.tla_record(st), calls=', '.join(call_tla(c) for c in CALLS),
                     ctxdefs=contexts.tla_defs('k'))


def legacy_call(s, p, c, tol):
    """Invoke the real legacy entry point.  Returns a dict in the shape of the model's result."""
    from pylatexenc.latexwalker import LatexWalker
    from pylatexenc.latexnodes import LatexWalkerParseError, LatexWalkerEndOfStream
    w = LatexWalker(s, latex_context=pstate.get_db('k'), tolerant_parsing=tol)
    try:
        if c['f'] == 'token':
            t = w.get_token(p)
            return dict(r='token', v=pstate.proj_token(t))
        if c['f'] == 'expression':
            n, np, nl = w.get_latex_expression(p, strict_braces=c['strict'])
            if n is None:
                return dict(r='none')
            return dict(r='node', v=proj.V(n), pos=np, len=nl)
        if c['f'] == 'braced':
            n, np, nl = w.get_latex_braced_group(p, brace_type=c['a'])
            if n is None:
                return dict(r='nonepos', pos=np, len=nl)
            return dict(r='node', v=proj.V(n), pos=np, len=nl)
        if c['f'] == 'optarg':
            r = w.get_latex_maybe_optional_arg(p)
            if r is None:
                return dict(r='none')
            return dict(r='node', v=proj.V(r[0]), pos=r[1], len=r[2])
        if c['f'] == 'nodes':
            kw = {}
            if c['stopkind'] == 'brace':
                kw['stop_upon_closing_brace'] = (({'}': '{', ']': '[', ')': '('}[c['stoparg']], c['stoparg']) if c.get('tuple')
                                                 else c['stoparg'])
            elif c['stopkind'] == 'env':
                kw['stop_upon_end_environment'] = c['stoparg']
            elif c['stopkind'] == 'math':
                kw['stop_upon_closing_mathmode'] = c['stoparg']
            n, np, nl = w.get_latex_nodes(p, **kw)
            if n is None:
                return dict(r='none')
            return dict(r='node', v=proj.V(n), pos=np, len=nl)
    except LatexWalkerParseError as e:
        return dict(r='raise', at=(-1 if e.pos is None else e.pos), exc='LatexWalkerParseError')
    except LatexWalkerEndOfStream:
        return dict(r='raise', at=-1, exc='LatexWalkerEndOfStream')


def norm_model(m, c):
    m = dict(m)
    if m['r'] == 'raise':
        return dict(r='raise', at=m['at'])
    if m['r'] == 'token':
        return m
    if c['f'] == 'nodes' and c['stopkind'] == 'math':
        pass
    return m


def differential(s, p, tol):
    """read_max_nodes and get_latex_environment against the equivalent new-API calls."""
    from pylatexenc.latexwalker import LatexWalker
    from pylatexenc.latexnodes import LatexWalkerParseError
    from pylatexenc.latexnodes.parsers import LatexGeneralNodesParser, LatexSingleNodeParser
    import pylatexenc.latexnodes.nodes as N
    out = []
    db = pstate.get_db('k')
    for n in (1, 2):
        def leg():
            w = LatexWalker(s, latex_context=db, tolerant_parsing=tol)
            r = w.get_latex_nodes(p, read_max_nodes=n)
            return ('ok', proj.V(r[0]), r[1], r[2])

        def new():
            w = LatexWalker(s, latex_context=db, tolerant_parsing=tol)
            tr = w.make_token_reader(pos=p)
            nl, _ = w.parse_content(LatexGeneralNodesParser(stop_nodelist_condition=lambda x: len(x) >= n,
                                                            require_stop_condition_met=False), token_reader=tr)
            return ('ok', proj.V(nl), (nl.pos if nl is not None else None), (tr.cur_pos() - nl.pos if nl is not None else None))
        a, b = _try(leg), _try(new)
        if a != b:
            out.append(('read_max_nodes=%d' % n, a, b))

    def lenv():
        w = LatexWalker(s, latex_context=db, tolerant_parsing=tol)
        r = w.get_latex_environment(p, environmentname='e')
        return ('ok', proj.V(r[0]), r[1], r[2])

    def nenv():
        w = LatexWalker(s, latex_context=db, tolerant_parsing=tol)
        nl, _ = w.parse_content(LatexSingleNodeParser(), token_reader=w.make_token_reader(pos=p))
        if not nl or len(nl) != 1 or not isinstance(nl[0], N.LatexEnvironmentNode) or nl[0].environmentname != 'e':
            return ('raise', None)
        return ('ok', proj.V(nl[0]), nl[0].pos, nl[0].len)
    a, b = _try(lenv), _try(nenv)
    if a[0] != b[0] or (a[0] == 'ok' and a != b):
        out.append(('get_latex_environment', a, b))
    return out


def _try(fn):
    from pylatexenc.latexnodes import LatexWalkerParseError
    try:
        return fn()
    except LatexWalkerParseError as e:
        return ('raise', None)


class LegacyConsumer(Consumer):
    def feed(self, rec):
        self.n += 1
        s = uncodes(rec['s'])
        c = CALLS[rec['ci'] - 1]
        tol = self.payload['tol']
        case = dict(s=s, pos=rec['p'], call=c, tolerant=tol)
        m = norm_model(rec['res'], c)
        if rec['p'] > 0 or m['r'] == 'node':
            self.nontrivial += 1
        self.sample(dict(case, model=(m['r'], m.get('pos'), m.get('len'))), every=19997)
        st, got = guarded(legacy_call, s, rec['p'], c, tol)
        if st != 'ok':
            self.violation('outcome', case, detail=dict(status=st, exc=repr(got)), sig=dict(clause='outcome', exc=type(got).__name__, f=c['f']))
            return
        g = dict(got)
        if g['r'] == 'raise':
            g = dict(r='raise', at=g['at'])
        if g != m:
            self.violation('legacy-differs-from-reference', case, detail=dict(model=str(m)[:500], legacy=str(g)[:500]),
                           sig=dict(clause='legacy-differs', f=c['f'], model_r=m['r'], legacy_r=g['r']))
            return
        self.counters['same'] += 1
        if rec['ci'] == 8:       # once per (string, position): the differential part
            st, d = guarded(differential, s, rec['p'], tol)
            self.counters['differential'] += 1
            if st != 'ok':
                self.violation('outcome', dict(case, part='differential'), detail=dict(status=st, exc=repr(d)), sig=dict(clause='outcome-differential'))
            elif d:
                self.violation('legacy-differs-from-new-api', dict(case, part='differential'), detail=dict(diff=str(d)[:600]),
                               sig=dict(clause='legacy-differs-new', what=d[0][0]))


# ---- spellings ----------------------------------------------------------------------------

def spell_name(spec):
    return 'f' + ''.join({'*': 's', '[': 'o', '{': 'm'}[c] for c in spec) + 'x'


ARG_ATOMS = ['*', '[x]', '{y}', 'z', ' ', '}', '[']
_spell_ctx = {}


def spell_contexts(spec):
    from pylatexenc.macrospec import (MacroSpec, EnvironmentSpec, LatexContextDb, std_macro, std_environment,
                                      MacroStandardArgsParser)
    if spec in _spell_ctx:
        return _spell_ctx[spec]
    name = spell_name(spec)
    variants = {
        'MacroSpec(name, spec)': MacroSpec(name, spec),
        'std_macro(name, spec)': std_macro(name, spec),
        'MacroSpec(name, args_parser=spec)': MacroSpec(name, args_parser=spec),
        'MacroSpec(name, args_parser=MacroStandardArgsParser(spec))': MacroSpec(name, args_parser=MacroStandardArgsParser(spec)),
        'std_macro((name, spec))': std_macro((name, spec)),
    }
    if spec and all(ch == '{' for ch in spec[1:]) and spec[0] in '[{':
        variants['std_macro(name, opt, n)'] = std_macro(name, spec[0] == '[', len(spec) - (1 if spec[0] == '[' else 0))
    out = {}
    for k, sp in variants.items():
        db = LatexContextDb()
        # \\W[..]{..} (pylatexenc-3 spelling in every database): the macro under test also occurs inside an optional argument
        db.add_context_category('c', macros=[sp, MacroSpec('W', '[{')])
        db.set_unknown_macro_spec(MacroSpec(''))
        db.set_unknown_environment_spec(EnvironmentSpec(''))
        out[k] = db
    _spell_ctx[spec] = out
    return out


class SpellConsumer(Consumer):
    def feed(self, rec):
        from pylatexenc.latexwalker import LatexWalker
        from pylatexenc.latexnodes import LatexWalkerParseError
        from pylatexenc.latexnodes.parsers import LatexGeneralNodesParser
        self.n += 1
        s = uncodes(rec['s'])
        spec = self.payload['spec']
        if len(s) > len(spell_name(spec)) + 1:
            self.nontrivial += 1
        self.sample(dict(s=s, spec=spec), every=4999)
        for mode, res in rec['res'].items():
            m = pc.norm_model(res)
            for label, db in spell_contexts(spec).items():
                def run():
                    w = LatexWalker(s, latex_context=db, tolerant_parsing=(mode == 'tolerant'))
                    nl, _ = w.parse_content(LatexGeneralNodesParser())
                    return nl
                st, val = guarded(run)
                self.counters['parses'] += 1
                case = dict(s=s, argspec=spec, spelling=label, mode=mode)
                legacyp = 'MacroStandardArgsParser' in label
                if st == 'exc' and isinstance(val, LatexWalkerParseError):
                    i = dict(ok=False, pos=(-1 if val.pos is None else val.pos), parse_error=True)
                elif st != 'ok':
                    self.violation('outcome', case, detail=dict(status=st, exc=repr(val)), sig=dict(clause='outcome', spelling=label))
                    return
                else:
                    i = dict(ok=True, v=proj.V(val))
                if m['ok'] and i['ok'] and m['v'] == i['v']:
                    continue
                if (not m['ok']) and (not i['ok']) and m['pos'] == i['pos']:
                    continue
                if legacyp and (not m['ok']) and (not i['ok']):
                    # the property asks that the legacy spelling fails exactly when the new one fails; the legacy argument
                    # parser re-raises nested errors from where its own call started, so the reported position may differ
                    self.counters['legacy_error_position_differs'] += 1
                    continue
                if legacyp and not m['ok'] and res['what'] == 'expr_closing_group' and i['ok']:
                    self.counters['legacy_empty_result'] += 1     # documented empty result (strict_braces=False)
                    continue
                self.violation('spelling-differs-from-reference', case,
                               detail=dict(model=str(m)[:400], impl=str(i)[:400]),
                               sig=dict(clause='spelling-differs', spelling=label, model_ok=m['ok'], impl_ok=i['ok']))
                return
        self.counters['same'] += 1


def spell_jobs(maxlen, K):
    jobs = []
    for n in range(0, maxlen + 1):
        for tup in itertools.product('*[{', repeat=n):
            spec = ''.join(tup)
            name = spell_name(spec)
            atoms = ['\\' + name] + ARG_ATOMS + ['\\W[', ']{y}']
            raw = dict(macros={name: list(spec), 'W': ['[', '{']}, envs={}, specials={}, unknown_macro=True, unknown_env=True)
            contexts.RAW['spell_' + name] = raw
            cname = 'spell_' + name
            mc = pc.mc_text(atoms, cname, K=K) if False else None
            st = pstate.make(ctx='none', tol=False)
            st['ctx'] = 'none'
            text = pc.MC % dict(atoms=pstate.atoms_tla(atoms), st0=pstate.tla_record(dict(st, ctx='none')).replace('has_ctx |-> FALSE', 'has_ctx |-> TRUE'),
                                ctxdefs=contexts.tla_defs(cname), modescfg=pc.modes_cfg_tla('knounk'))
            jobs.append(dict(payload=dict(spec=spec), main='MC_ParseRun', mc=text,
                             cfg=pc.cfg_text(cname, K, 1, ['strict', 'tolerant'], ['NoNonterm', 'Emit']),
                             tlc_kw=dict(timeout=3000, xmx='2g')))
    return jobs


def run(ctx):
    quick = ctx.tier == 'quick'
    K = 2 if quick else 3
    ctx.rule = ('TLC evaluates every legacy entry point (get_token, get_latex_expression with/without strict_braces, '
                'get_latex_braced_group for 3 brace types, get_latex_maybe_optional_arg, get_latex_nodes with 7 stop variants) '
                'at every start position of every string of <= K atoms, strict and tolerant; the real legacy calls must return '
                'the same; read_max_nodes and get_latex_environment are compared with the equivalent new-API calls; every '
                'argument string over {*,[,{} up to length 3/4 through 5-6 spellings on every string of argument material. '
                'Non-trivial: start position > 0 or a node is returned.')
    text = mc_text()
    for tol in (False, True):
        jobs = [dict(payload=dict(tol=tol), main='MC_LegacyApi', mc=text,
                     cfg=CFG % dict(ctxconst=contexts.cfg_constants('k').rstrip('\n'), K=K, shard=sh, tol='TRUE' if tol else 'FALSE'),
                     tlc_kw=dict(timeout=6000, xmx='3g')) for sh in range(0, len(ATOMS) + 1)]
        m = common.run_shards(ctx, ('harness.c16', 'LegacyConsumer'), jobs, what='LegacyApi %s, strings <= %d' % ('tolerant' if tol else 'strict', K))
        ctx.add_merged(m)
        ctx.log('legacy calls (%s): %d (string, position, call) cases, %d identical, %d differential comparisons' % (
            'tolerant' if tol else 'strict', m['n'], m['counters'].get('same', 0), m['counters'].get('differential', 0)))
    m = common.run_shards(ctx, ('harness.c16', 'SpellConsumer'), spell_jobs(3 if quick else 4, 4 if quick else 5),
                          what='ParseRun per argument string (spellings)')
    ctx.add_merged(m)
    ctx.log('spellings: %d (argspec, document) cases, %d parses, %d identical, %d documented empty results' % (
        m['n'], m['counters'].get('parses', 0), m['counters'].get('same', 0), m['counters'].get('legacy_empty_result', 0)))
    ctx.exhaustive = True
    ctx.assumptions += ['error kinds are not compared, only raise / no raise and the error position',
                        'MacroStandardArgsParser reads mandatory arguments with strict_braces=False (documented empty result '
                        'where the new parser raises on a closing brace)']


def replay(case):
    c = case['case']
    if 'call' in c:
        got = legacy_call(c['s'], c['pos'], c['call'], c['tolerant'])
        print(repr(c['s']), c['pos'], c['call'], c['tolerant'], '->', str(got)[:500])
        print('model:', case.get('detail', {}).get('model'))
        return False
    print(c)
    return False

# -*- coding: utf-8 -*-
"""C02 -- parsing recovers the structure a well-formed document was written with.

The oracle is the writer (spec/DocWriter.tla), which never looks at tokens: it appends
source text construct by construct and records the abstract tree as written, with
LaTeX's own adjacency rules as enabling conditions.  spec/DocCheck.tla composes it with
the reference parser (TLC: every written document is accepted by the model).  Binding
S->C, exact (verdict rule 2): the real strict parser must accept every written document
and return exactly the written structure (nesting, kinds, names, delimiters, and for
each declared slot the written argument or 'absent'), whitespace-only characters
ignored.
"""
from __future__ import annotations

from . import common, docwriter, parsecommon as pc, contexts, pstate

LEVEL = 'model_checking'


def run(ctx):
    docwriter.run_c02(ctx)
    ctx.assumptions += ['the writer\'s enabling conditions are LaTeX\'s adjacency rules (reviewed by hand, see DESIGN.md)',
                        'whitespace-only character nodes and whitespace inside character nodes are ignored, verbatim text '
                        'is compared exactly']


def replay(case):
    c = case['case']
    i = pc.impl_parse(c['src'], c['ctx'], 'strict', full=True)
    print('document', repr(c['src']))
    print('written ', c.get('written'))
    if not i['ok']:
        print('rejected:', i.get('exc'), i.get('what'), i.get('pos'))
        return case.get('clause') in ('fault-not-rejected',) and bool(i.get('parse_error'))
    got = docwriter.merge([docwriter.canon_impl(x, contexts.describe(c['ctx'])) for x in (i['nodelist'] or [])])
    print('parsed  ', repr(got)[:600])
    if case.get('clause') == 'fault-not-rejected':
        return False
    return repr(got)[:600] == (c.get('written') or '')[:600] or repr(got) == c.get('written')

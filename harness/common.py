# -*- coding: utf-8 -*-
"""Shared machinery of the pylatexenc TLA+ verification framework.

* TLC driving (one JVM per shard, ``-workers 1`` so that ``PrintT`` output is
  line-atomic and reproducible), output streamed into a consumer, statistics
  parsed from TLC's own report;
* sharded runs over a process pool: each pool worker starts one TLC process and
  feeds the records it prints (``INVARIANT Emit == done => PrintT(ToJson(..))``)
  to a consumer object that drives the real implementation;
* CPU-time watchdog around every call into pylatexenc;
* verdict bookkeeping: violations, drift, known findings, replay files,
  evidence files.

Exit codes of a check: 0 held / 1 VIOLATION / 2 machinery error.
"""
from __future__ import annotations

import collections
import contextlib
import hashlib
import importlib
import json
import multiprocessing
import os
import re
import shutil
import signal
import subprocess
import sys
import tempfile
import time
import traceback

VERIF = os.path.dirname(os.path.dirname(os.path.abspath(__file__)))
SPEC_DIR = os.path.join(VERIF, 'spec')
# VERIF_OUT_DIR: write evidence and replay files elsewhere (used when a seeded change is evaluated, so that the evidence
# under /verif/evidence always describes a run on the unchanged tree)
_OUT = os.environ.get('VERIF_OUT_DIR') or VERIF
EVIDENCE_DIR = os.path.join(_OUT, 'evidence')
REPLAY_DIR = os.path.join(_OUT, 'replays')
KNOWN_FINDINGS = os.path.join(VERIF, 'known_findings.json')
TLA_JAR = '/opt/veriftools/tla/tla2tools.jar'
TLA_DEPS = '/opt/veriftools/tla/CommunityModules-deps.jar'
NPROC = int(os.environ.get('VERIF_NPROC', '0')) or min(16, os.cpu_count() or 4)


class MachineryError(Exception):
    """Something prevented a verdict (TLC crash, unparsable output...)."""


# ---------------------------------------------------------------------------
# watchdog


class WatchdogTimeout(BaseException):
    """CPU-time budget of one implementation call exceeded.  Derives from
    BaseException so that ``except Exception`` blocks in the implementation
    cannot swallow it."""


def _on_vtalrm(signum, frame):
    raise WatchdogTimeout()


@contextlib.contextmanager
def watchdog(cpu_seconds=5.0):
    """Limit the *CPU time* of the enclosed block (ITIMER_VIRTUAL): machine load
    cannot cause a false timeout."""
    old = signal.signal(signal.SIGVTALRM, _on_vtalrm)
    signal.setitimer(signal.ITIMER_VIRTUAL, cpu_seconds)
    try:
        yield
    finally:
        signal.setitimer(signal.ITIMER_VIRTUAL, 0)
        signal.signal(signal.SIGVTALRM, old)


def guarded(fn, *a, cpu_seconds=5.0, **kw):
    """Call fn under the watchdog.  Returns ('ok', value) | ('exc', exception)
    | ('timeout', None)."""
    try:
        with watchdog(cpu_seconds):
            return ('ok', fn(*a, **kw))
    except WatchdogTimeout:
        return ('timeout', None)
    except RecursionError as e:
        return ('exc', e)
    except Exception as e:  # noqa
        return ('exc', e)


# ---------------------------------------------------------------------------
# small helpers

def codes(x):
    return [ord(c) for c in x]


def uncodes(seq):
    return ''.join(chr(c) for c in seq)


def tla_seq(x):
    """Python str / list of ints / nested lists -> TLA+ sequence literal."""
    if isinstance(x, str):
        return '<<' + ', '.join(str(ord(c)) for c in x) + '>>'
    if isinstance(x, bool):
        return 'TRUE' if x else 'FALSE'
    if isinstance(x, int):
        return str(x)
    if isinstance(x, (list, tuple)):
        return '<<' + ', '.join(tla_seq(y) for y in x) + '>>'
    if isinstance(x, (set, frozenset)):
        return '{' + ', '.join(sorted(tla_seq(y) for y in x)) + '}'
    if isinstance(x, TlaLit):
        return x.text
    if isinstance(x, dict):
        return '[' + ', '.join('%s |-> %s' % (k, tla_seq(v)) for k, v in x.items()) + ']'
    raise TypeError(type(x))


class TlaLit(object):
    def __init__(self, text):
        self.text = text


def tla_str(s):
    return TlaLit('"%s"' % s)


def sha1(obj):
    return hashlib.sha1(json.dumps(obj, sort_keys=True, default=repr).encode()).hexdigest()


# ---------------------------------------------------------------------------
# TLC


class TLCResult(object):
    def __init__(self):
        self.exit = None
        self.generated = 0
        self.distinct = 0
        self.violated = None      # name of violated invariant / property
        self.error = None         # first 'Error:' line that is not an invariant violation
        self.trace = ''           # counterexample text
        self.tail = ''
        self.wall = 0.0
        self.cmd = ''
        self.records = 0
        self.coverage = {}        # action name -> count (when -coverage)
        self.timed_out = False
        self.printed = {}         # tag -> list of first integer field of <<"TAG", n, ...>> lines
        self.printed_lines = []   # raw <<...>> lines (bounded)

    def summary(self):
        return dict(cmd=self.cmd, exit=self.exit, generated=self.generated, distinct=self.distinct,
                    violated=self.violated, error=self.error, wall_s=round(self.wall, 2),
                    records=self.records, timed_out=self.timed_out)


_RE_STATES = re.compile(r'(\d+) states generated, (\d+) distinct states found')
_RE_INV = re.compile(r'Error: Invariant (\S+) is violated')
_RE_PROP = re.compile(r'Error: (?:Action|Temporal) propert(?:y|ies) (\S+)?')
_RE_TUP = re.compile(r'<<"(\w+)", (\d+)')
_RE_COV = re.compile(r'^<(\w+) line \d+, col \d+ to line \d+, col \d+ of module (\w+)>: (\d+):(\d+)')


def make_tlc_dir(main, mc_text, cfg_text, extra_files=None):
    d = tempfile.mkdtemp(prefix='verif_tlc_')
    for fn in os.listdir(SPEC_DIR):
        if fn.endswith('.tla'):
            shutil.copy(os.path.join(SPEC_DIR, fn), d)
    if mc_text is not None:
        with open(os.path.join(d, main + '.tla'), 'w') as f:
            f.write(mc_text)
    with open(os.path.join(d, main + '.cfg'), 'w') as f:
        f.write(cfg_text)
    for name, content in (extra_files or {}).items():
        with open(os.path.join(d, name), 'w') as f:
            f.write(content)
    return d


def run_tlc(main, cfg_text, mc_text=None, workers=1, timeout=900, on_record=None, on_raw=None,
            simulate=None, depth=None, seed=None, coverage=False, extra_files=None,
            env=None, xmx='3g', keep_dir=None, extra_args=None, deadlock=None, dfid=None):
    """Run TLC on module `main` (taken from /verif/spec unless mc_text is given).

    on_record(obj) is called for each JSON record printed by PrintT(ToJson(..)).
    """
    d = make_tlc_dir(main, mc_text, cfg_text, extra_files)
    res = TLCResult()
    jtmp = os.path.join(d, 'jtmp')       # TLC unpacks its standard modules into java.io.tmpdir and leaves them there:
    os.makedirs(jtmp, exist_ok=True)     # keep that inside the run directory, which is removed after the run
    cmd = ['java', '-XX:+UseParallelGC', '-Xmx' + xmx, '-Xss64m', '-Djava.io.tmpdir=' + jtmp,
           '-cp', TLA_JAR + ':' + TLA_DEPS, 'tlc2.TLC',
           '-workers', str(workers), '-metadir', os.path.join(d, 'meta'),
           '-noGenerateSpecTE']
    if seed is not None:
        cmd += ['-seed', str(seed)]
    if simulate is not None:
        cmd += ['-simulate', simulate]
    if depth is not None:
        cmd += ['-depth', str(depth)]
    if coverage:
        cmd += ['-coverage', '1']
    if dfid is not None:
        cmd += ['-dfid', str(dfid)]
    if extra_args:
        cmd += list(extra_args)
    cmd += ['-config', main + '.cfg', main + '.tla']
    res.cmd = 'tlc ' + ' '.join(cmd[cmd.index('tlc2.TLC') + 1:])
    e = dict(os.environ)
    e.pop('JAVA_TOOL_OPTIONS', None)
    if env:
        e.update(env)
    t0 = time.time()
    tail = collections.deque(maxlen=400)
    trace_lines = []
    in_trace = False
    proc = subprocess.Popen(['timeout', '-k', '5', str(int(timeout))] + cmd, cwd=d, env=e,
                            stdout=subprocess.PIPE, stderr=subprocess.STDOUT,
                            text=True, bufsize=1 << 16, errors='replace')
    try:
        for line in proc.stdout:
            if line.startswith('"{') or line.startswith('"['):
                res.records += 1
                if on_raw is not None:
                    on_raw(line)
                    continue
                if on_record is not None:
                    try:
                        obj = json.loads(json.loads(line))
                    except ValueError:
                        raise MachineryError('unparsable TLC record: %r' % line[:200])
                    on_record(obj)
                continue
            if line.startswith('<<"'):
                mt = _RE_TUP.match(line)
                if mt:
                    res.printed.setdefault(mt.group(1), []).append(int(mt.group(2)))
                if len(res.printed_lines) < 200000:
                    res.printed_lines.append(line)
                continue
            tail.append(line)
            m = _RE_STATES.search(line)
            if m:
                res.generated, res.distinct = int(m.group(1)), int(m.group(2))
            if line.startswith('Error:'):
                mi = _RE_INV.match(line)
                if mi:
                    res.violated = mi.group(1)
                elif 'is violated' in line or 'violated' in line:
                    res.violated = res.violated or line.strip()
                elif 'Deadlock reached' in line:
                    res.violated = res.violated or 'Deadlock'
                elif res.error is None and res.violated is None:
                    res.error = line.strip()
                in_trace = True
            if in_trace and len(trace_lines) < 4000:
                trace_lines.append(line)
            if coverage:
                mc = _RE_COV.match(line)
                if mc:
                    res.coverage[mc.group(1)] = res.coverage.get(mc.group(1), 0) + int(mc.group(3))
        proc.wait()
    finally:
        if proc.poll() is None:
            proc.kill()
            proc.wait()
        if keep_dir:
            shutil.rmtree(keep_dir, ignore_errors=True)
            shutil.copytree(d, keep_dir)
        shutil.rmtree(d, ignore_errors=True)
    res.exit = proc.returncode
    res.wall = time.time() - t0
    res.tail = ''.join(tail)
    res.trace = ''.join(trace_lines)
    if res.exit == 124 or res.exit == 137:
        res.timed_out = True
    return res


def tlc_must_pass(res, what, allow_timeout=False):
    """Raise MachineryError unless TLC completed without error or violation."""
    if res.timed_out and allow_timeout:
        return
    if res.exit != 0 or res.error or res.violated:
        raise MachineryError('%s: TLC exit=%s violated=%s error=%s\n%s' % (
            what, res.exit, res.violated, res.error, res.tail[-3000:]))


# ---------------------------------------------------------------------------
# sharded TLC + consumer


class Consumer(object):
    """Base class of the objects that receive TLC records in pool workers."""

    def __init__(self, payload):
        self.payload = payload
        self.n = 0
        self.nontrivial = 0
        self.counters = collections.Counter()
        self.violations = []     # dicts, see Ctx.violation
        self.drift = []
        self.samples = []
        self.max_keep = 40
        self.extra = {}

    def feed(self, rec):
        raise NotImplementedError

    def violation(self, clause, case, detail=None, sig=None):
        self.counters['violations'] += 1
        key = json.dumps(sig or {'clause': clause}, sort_keys=True)
        self.counters['vsig:' + key] += 1
        # keep the first few per signature so that rarer signatures are not crowded out
        if self.counters['vsig:' + key] <= 5 and len(self.violations) < 400:
            self.violations.append(dict(clause=clause, case=case, detail=detail, sig=sig or {}))

    def add_drift(self, case, detail=None):
        self.counters['drift'] += 1
        if len(self.drift) < self.max_keep:
            self.drift.append(dict(case=case, detail=detail))

    def sample(self, case, every=997, limit=6):
        if len(self.samples) < limit and (self.n % every == 1 or self.n <= 1):
            self.samples.append(case)

    def result(self):
        return dict(n=self.n, nontrivial=self.nontrivial, counters=dict(self.counters),
                    violations=self.violations, drift=self.drift, samples=self.samples,
                    extra=self.extra)


def _shard_worker(job):
    (modname, clsname, payload, main, cfg_text, mc_text, tlc_kw) = job
    try:
        sys.setrecursionlimit(10000)
        mod = importlib.import_module(modname)
        cons = getattr(mod, clsname)(payload)
        res = run_tlc(main, cfg_text, mc_text=mc_text, on_record=cons.feed, **tlc_kw)
        if hasattr(cons, 'close'):
            cons.close()
        return ('ok', res.summary(), res.tail[-2500:], cons.result())
    except BaseException as e:  # noqa
        return ('fail', None, traceback.format_exc(), None)


def merge_results(results):
    out = dict(n=0, nontrivial=0, counters=collections.Counter(), violations=[], drift=[], samples=[],
               extra=[])
    for r in results:
        out['n'] += r['n']
        out['nontrivial'] += r['nontrivial']
        out['counters'].update(r['counters'])
        out['violations'].extend(r['violations'])
        out['drift'].extend(r['drift'][:10])
        out['samples'].extend(r['samples'][:3])
        if r.get('extra'):
            out['extra'].append(r['extra'])
    return out


def run_shards(ctx, consumer, jobs, nproc=None, what='', allow_violation=False, allow_timeout=False):
    """jobs: list of dict(payload, main, cfg, mc, tlc_kw).  consumer: (module, class).
    Returns merged consumer result; adds TLC stats to ctx; raises MachineryError
    if a TLC process fails."""
    nproc = nproc or NPROC
    packed = [(consumer[0], consumer[1], j.get('payload'), j['main'], j['cfg'], j.get('mc'),
               j.get('tlc_kw', {})) for j in jobs]
    if len(packed) == 1 or nproc == 1:
        outs = [_shard_worker(p) for p in packed]
    else:
        with multiprocessing.get_context('fork').Pool(min(nproc, len(packed))) as pool:
            outs = list(pool.imap_unordered(_shard_worker, packed, chunksize=1))
    results = []
    for st, summ, tail, cres in outs:
        if st != 'ok':
            raise MachineryError('%s: shard worker failed:\n%s' % (what, tail))
        ctx.add_tlc(summ, what)
        bad = summ['exit'] != 0 or summ['error']
        if summ['timed_out'] and allow_timeout:
            bad = False
        if summ['violated'] and allow_violation and not summ['error']:
            bad = False
        if bad:
            raise MachineryError('%s: TLC exit=%s violated=%s error=%s\n%s' % (
                what, summ['exit'], summ['violated'], summ['error'], tail))
        results.append(cres)
    merged = merge_results(results)
    merged['tlc'] = [o[1] for o in outs]
    return merged


def _batch_worker(job):
    (modname, clsname, payload, lines) = job
    try:
        sys.setrecursionlimit(10000)
        mod = importlib.import_module(modname)
        cons = getattr(mod, clsname)(payload)
        for line in lines:
            cons.feed(json.loads(json.loads(line)))
        if hasattr(cons, 'close'):
            cons.close()
        return ('ok', cons.result())
    except BaseException:  # noqa
        return ('fail', traceback.format_exc())


def run_dispatch(ctx, consumer, job, what='', nproc=None, batch=400, allow_timeout=False,
                 allow_violation=False):
    """One TLC process; the records it prints are handed in batches to a process pool that
    runs the consumer (used when the model cannot be sharded by its initial state)."""
    import threading
    nproc = nproc or NPROC
    results = []
    errors = []
    sem = threading.Semaphore(4 * nproc)
    buf = []

    def done_cb(out):
        sem.release()
        if out[0] == 'ok':
            results.append(out[1])
        else:
            errors.append(out[1])

    def err_cb(e):
        sem.release()
        errors.append(repr(e))

    with multiprocessing.get_context('fork').Pool(nproc) as pool:
        def flush():
            if not buf:
                return
            sem.acquire()
            pool.apply_async(_batch_worker, ((consumer[0], consumer[1], job.get('payload'), list(buf)),),
                             callback=done_cb, error_callback=err_cb)
            del buf[:]

        def on_raw(line):
            buf.append(line)
            if len(buf) >= batch:
                flush()
        res = run_tlc(job['main'], job['cfg'], mc_text=job.get('mc'), on_raw=on_raw, **job.get('tlc_kw', {}))
        flush()
        pool.close()
        pool.join()
    if errors:
        raise MachineryError('%s: consumer failed:\n%s' % (what, errors[0]))
    ctx.add_tlc(res, what)
    bad = res.exit != 0 or res.error
    if res.timed_out and allow_timeout:
        bad = False
    if res.violated and allow_violation and not res.error:
        bad = False
    if bad:
        raise MachineryError('%s: TLC exit=%s violated=%s error=%s\n%s' % (
            what, res.exit, res.violated, res.error, res.tail[-3000:]))
    merged = merge_results(results)
    merged['tlc'] = [res.summary()]
    return merged


def pool_map(fn, items, nproc=None, chunksize=1):
    nproc = nproc or NPROC
    if nproc == 1 or len(items) <= 1:
        return [fn(x) for x in items]
    with multiprocessing.get_context('fork').Pool(min(nproc, len(items))) as pool:
        return pool.map(fn, items, chunksize=chunksize)


# ---------------------------------------------------------------------------
# known findings


def load_known_findings():
    if not os.path.exists(KNOWN_FINDINGS):
        return []
    with open(KNOWN_FINDINGS) as f:
        data = json.load(f)
    return [x for x in data.get('findings', [])]


def _match_one(pattern, value):
    """pattern: scalar (equality), or {'re': regex} (fullmatch on str(value)),
    or {'in': [...]}."""
    if isinstance(pattern, dict) and 're' in pattern:
        return value is not None and re.fullmatch(pattern['re'], str(value), re.S) is not None
    if isinstance(pattern, dict) and 'in' in pattern:
        return value in pattern['in']
    return pattern == value


def finding_matches(finding, prop, v):
    if finding.get('property') != prop:
        return False
    flat = dict(v.get('sig') or {})
    flat.setdefault('clause', v.get('clause'))
    case = v.get('case')
    if isinstance(case, dict):
        for k, val in case.items():
            flat.setdefault(k, val)
    for k, pat in finding.get('match', {}).items():
        if k not in flat or not _match_one(pat, flat[k]):
            return False
    return True


# ---------------------------------------------------------------------------
# check context


class Ctx(object):
    def __init__(self, prop, tier, seed, level='model_checking'):
        self.prop = prop
        self.tier = tier
        self.seed = seed
        self.level = level
        self.t0 = time.time()
        self.tlc_runs = []
        self.states = 0
        self.transitions = 0
        self.traces_validated = 0
        self.evaluations = 0
        self.nontrivial = 0
        self.rule = ''
        self.samples = []
        self.violations = []
        self.drift = []
        self.drift_count = 0
        self.assumptions = []
        self.notes = {}
        self.exhaustive = False
        self.controls = []        # sensitivity controls: (name, fired)
        self.known_printed = {}
        self.counters = collections.Counter()

    # --- bookkeeping
    def add_tlc(self, summ, what=''):
        if isinstance(summ, TLCResult):
            summ = summ.summary()
        s = dict(summ)
        s['what'] = what
        self.tlc_runs.append(s)
        self.states += s.get('distinct', 0)
        self.transitions += s.get('generated', 0)

    def add_merged(self, merged, validated=True):
        self.evaluations += merged['n']
        self.nontrivial += merged['nontrivial']
        if validated:
            self.traces_validated += merged['n']
        self.counters.update(merged['counters'])
        for v in merged['violations']:
            self.violations.append(v)
        self.drift.extend(merged['drift'])
        self.drift_count += merged['counters'].get('drift', 0)
        for s in merged['samples']:
            if len(self.samples) < 12:
                self.samples.append(s)

    def violation(self, clause, case, detail=None, sig=None):
        self.violations.append(dict(clause=clause, case=case, detail=detail, sig=sig or {}))

    def control(self, name, fired, detail=''):
        self.controls.append(dict(name=name, fired=bool(fired), detail=detail))
        if not fired:
            raise MachineryError('sensitivity control did not fire: %s %s' % (name, detail))

    def log(self, *a):
        print('[%s %6.1fs]' % (self.prop, time.time() - self.t0), *a, flush=True)

    # --- verdict
    def finish(self):
        known = load_known_findings()
        unlisted = []
        known_hits = collections.OrderedDict()
        for v in self.violations:
            hit = None
            for f in known:
                if finding_matches(f, self.prop, v):
                    hit = f
                    break
            if hit is None:
                unlisted.append(v)
            else:
                known_hits.setdefault(hit['id'], [hit, 0])
                known_hits[hit['id']][1] += 1
        for fid, (f, cnt) in known_hits.items():
            print('KNOWN-FINDING: property=%s %s [%s; %d case(s) this run]' % (
                self.prop, f.get('what', ''), fid, cnt))
        nviol_total = self.counters.get('violations', 0) or len(self.violations)
        replay_paths = []
        seen = set()
        for v in unlisted:
            h = sha1([v.get('clause'), v.get('case')])
            if h in seen:
                continue
            seen.add(h)
            if len(replay_paths) >= 25:
                continue
            d = os.path.join(REPLAY_DIR, self.prop)
            os.makedirs(d, exist_ok=True)
            p = os.path.join(d, h[:16] + '.json')
            with open(p, 'w') as f:
                json.dump(dict(property=self.prop, clause=v.get('clause'), case=v.get('case'),
                               detail=v.get('detail'), sig=v.get('sig')), f, indent=1, default=repr)
            replay_paths.append((p, v))
        for p, v in replay_paths:
            print('VIOLATION property=%s replay=%s clause=%s' % (self.prop, p, v.get('clause')))
            if v.get('detail') is not None:
                print('   detail: %s' % (json.dumps(v.get('detail'), default=repr)[:600]))
        if self.drift_count:
            print('DRIFT property=%s n=%d' % (self.prop, self.drift_count))
        self.write_evidence(len(unlisted), known_hits)
        return 1 if unlisted else 0

    def write_evidence(self, n_unlisted, known_hits=None):
        os.makedirs(EVIDENCE_DIR, exist_ok=True)
        cov = dict(
            states=int(self.states), transitions=int(self.transitions),
            traces_validated_against_impl=int(self.traces_validated),
            evaluations=int(self.evaluations), distinct_nontrivial=int(self.nontrivial),
            rule=self.rule, samples=self.samples[:12] or ['(none)'],
            exhaustive=bool(self.exhaustive),
            tlc_runs=_compress_runs(self.tlc_runs),
            sensitivity_controls=self.controls,
            drift=dict(count=self.drift_count, samples=self.drift[:8]),
            counters={k: v for k, v in self.counters.items() if not k.startswith('vsig:')},
            known_findings_seen={k: v[1] for k, v in (known_hits or {}).items()},
            notes=self.notes,
        )
        ev = dict(property_id=self.prop, tier=self.tier, seed=int(self.seed), level=self.level,
                  coverage=cov, assumptions=self.assumptions,
                  wall_s=round(time.time() - self.t0, 2), violations=int(n_unlisted))
        with open(os.path.join(EVIDENCE_DIR, self.prop + '.json'), 'w') as f:
            json.dump(ev, f, indent=1, default=repr)
            f.write('\n')


def _compress_runs(runs):
    """Group TLC runs by `what` so that evidence files stay small."""
    g = collections.OrderedDict()
    for r in runs:
        k = r.get('what', '')
        e = g.setdefault(k, dict(what=k, runs=0, generated=0, distinct=0, wall_s=0.0, records=0,
                                 example_cmd=r.get('cmd', ''), violated=[]))
        e['runs'] += 1
        e['generated'] += r.get('generated', 0)
        e['distinct'] += r.get('distinct', 0)
        e['records'] += r.get('records', 0)
        e['wall_s'] = round(e['wall_s'] + r.get('wall_s', 0), 2)
        if r.get('violated') and r['violated'] not in e['violated']:
            e['violated'].append(r['violated'])
    return list(g.values())


# ---------------------------------------------------------------------------
# C->S: validation of implementation traces against a Tier-A acceptor module

_RE_ACC = re.compile(r'<<"ACC", (\d+)>>')
_RE_AT = re.compile(r'<<"AT", (\d+), (\d+)>>')
_RE_CL = re.compile(r'<<"CL", (\d+), (\d+), ([\[{].*[\]}])\s*>>')


def _no_null(x):
    """The Json module of the CommunityModules cannot deserialize null: write "" instead."""
    if x is None:
        return ''
    if isinstance(x, dict):
        return {k: _no_null(v) for k, v in x.items()}
    if isinstance(x, (list, tuple)):
        return [_no_null(v) for v in x]
    return x


def validate_traces(ctx, module, traces, what='', chunk=20000, timeout=1200, workers=None, diag=True):
    """Validate `traces` (list of JSON-able dicts) with the acceptor spec `module`
    (which reads IOEnv.TRACE_FILE and prints <<"ACC", tid>> for accepted traces).
    Returns (accepted_flags, diagnostics) where diagnostics maps index -> dict(at=l, clauses=...)
    for rejected traces."""
    flags = [False] * len(traces)
    diags = {}
    cfg = 'SPECIFICATION Spec\nINVARIANT Accept\nINVARIANT Progress\nINVARIANT DiagClauses\nCHECK_DEADLOCK FALSE\n'
    for base in range(0, len(traces), chunk):
        part = traces[base:base + chunk]
        d = tempfile.mkdtemp(prefix='verif_tr_')
        try:
            fn = os.path.join(d, 'traces.json')
            with open(fn, 'w') as f:
                json.dump(_no_null(part), f)
            res = run_tlc(module, cfg, workers=workers or NPROC, timeout=timeout, env={'TRACE_FILE': fn}, xmx='8g')
            ctx.add_tlc(res, what or ('trace validation ' + module))
            if res.exit != 0 or res.error or res.violated:
                raise MachineryError('trace validation %s failed: exit=%s %s %s\n%s' % (
                    module, res.exit, res.error, res.violated, res.tail[-2500:]))
            acc = set(int(x) for x in res.printed.get('ACC', []))
            for k in range(len(part)):
                flags[base + k] = (k + 1) in acc
            rej = [k for k in range(len(part)) if (k + 1) not in acc]
            if rej and diag:
                sub = [part[k] for k in rej[:1000]]
                with open(fn, 'w') as f:
                    json.dump(_no_null(sub), f)
                res2 = run_tlc(module, cfg, workers=1, timeout=timeout, env={'TRACE_FILE': fn, 'DIAG': '1'}, xmx='4g')
                at = {}
                cl = {}
                for line in res2.printed_lines:
                    m = _RE_AT.search(line)
                    if m:
                        t, l = int(m.group(1)), int(m.group(2))
                        at[t] = max(at.get(t, 0), l)
                    m = _RE_CL.search(line)
                    if m:
                        cl[(int(m.group(1)), int(m.group(2)))] = m.group(3)
                for j, k in enumerate(rej[:1000], start=1):
                    l = at.get(j, 1)
                    clause_text = cl.get((j, l), '')
                    failed = re.findall(r'(\w+) \|-> FALSE', clause_text) or re.findall(r'"(\w+)"', clause_text)
                    diags[base + k] = dict(stuck_at_event=l, failed_clauses=failed,
                                           event=(part[k]['ev'][l - 1] if 'ev' in part[k] and l - 1 < len(part[k]['ev']) else None))
        finally:
            shutil.rmtree(d, ignore_errors=True)
    return flags, diags

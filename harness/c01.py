# -*- coding: utf-8 -*-
"""C01 -- node tree is a lossless, exactly positioned cover of the source.

Tier B: spec/Parser.tla (strict and tolerant) run by spec/ParseRun.tla over every
string of <= K atoms, under a hand-written context exercising every standard
argument type ('k') and under the real default database (extracted, (D)).  TLC
checks the Tier-A predicates of spec/TreeProps.tla (CoverStrict, CoverTolerant)
on the model's own trees.  Binding S->C: the real parser's tree must equal the
model's (and latex_verbatim() of the top-level nodes must reproduce the input,
chars/comment text must equal the source slice).  Binding C->S (verdict rule 3):
every deviating tree and a deterministic sample of all trees is validated by TLC
against the same Tier-A predicates (spec/TraceTree.tla); accepted deviations are
drift, rejected ones violations.
"""
from __future__ import annotations

from . import common, parsecommon as pc, proj
from .common import Consumer, uncodes, codes

LEVEL = 'model_checking'


def full_trace(s, kind, nl):
    ns = [proj.proj_node_full(n) for n in nl if n is not None]
    tr = dict(kind=kind, s=codes(s), ns=ns)
    if kind == 'cover_strict':
        tr['verbs'] = [codes(n.latex_verbatim()) for n in nl if n is not None]
    return tr


def text_ok(s, nl):
    """chars/comment text equals the source slice; latex_verbatim concatenation equals s."""
    import pylatexenc.latexnodes.nodes as N
    from pylatexenc.latexnodes.nodes import LatexNodesVisitor
    ok = [True]

    def walk(n):
        if n is None:
            return
        if isinstance(n, N.LatexCharsNode):
            if n.chars != s[n.pos:n.pos_end]:
                ok[0] = False
            return
        if isinstance(n, N.LatexCommentNode):
            if n.comment != s[n.pos + 1:n.pos_end - len(n.comment_post_space or '')]:
                ok[0] = False
            return
        nd = getattr(n, 'nodeargd', None)
        if nd is not None and getattr(nd, 'argnlist', None):
            for a in nd.argnlist:
                if a is None:
                    continue
                if isinstance(a, (N.LatexNodeList, list)):
                    for x in a:
                        walk(x)
                else:
                    walk(a)
        for x in (getattr(n, 'nodelist', None) or []):
            walk(x)
    for n in nl:
        walk(n)
    return ok[0]


class CoverConsumer(Consumer):
    def __init__(self, payload):
        super().__init__(payload)
        self.traces = []

    def keep(self, case, tr, reason):
        if len(self.traces) < 5000:
            self.traces.append((case, tr, reason))
        elif reason == 'deviation':
            self.counters['deviations_not_kept'] += 1

    def feed(self, rec):
        self.n += 1
        s = uncodes(rec['s'])
        ctx = self.payload['ctx']
        for mode, res in rec['res'].items():
            case = dict(s=s, ctx=ctx, mode=mode)
            m = pc.norm_model(res)
            i = pc.impl_parse(s, ctx, mode, full=True)
            self.counters['parses'] += 1
            if not i['ok']:
                # C01 speaks about inputs that parse; exceptions are C05/C06 business
                self.counters['impl_rejects:' + mode] += 1
                continue
            nl = i['nodelist']
            if nl is None:
                self.counters['impl_none:' + mode] += 1
                continue
            nontriv = len(nl) >= 2 or any(getattr(n, 'nodelist', None) or getattr(n, 'nodeargd', None) for n in nl)
            if mode == 'strict':
                if nontriv:
                    self.nontrivial += 1
                same = (m['ok'] and m['v'] == i['v'] and text_ok(s, nl)
                        and ''.join(n.latex_verbatim() for n in nl) == s)
                kind = 'cover_strict'
            else:
                same = (m['ok'] and m['v'] == i['v'])
                kind = 'cover_tolerant'
            if same:
                self.counters['same:' + mode] += 1
                if self.counters['same:' + mode] % self.payload.get('sample_every', 97) == 0:
                    self.keep(case, full_trace(s, kind, nl), 'sample')
            else:
                self.counters['deviates:' + mode] += 1
                self.keep(case, full_trace(s, kind, nl), 'deviation')
        self.sample(dict(s=s, ctx=ctx), every=4999)

    def result(self):
        r = super().result()
        r['extra'] = dict(traces=self.traces)
        return r


def validate(ctx, merged, prop_clause='cover'):
    items = []
    for ex in merged['extra']:
        items.extend(ex.get('traces', []))
    dropped = merged['counters'].get('deviations_not_kept')
    if not items:
        if dropped:
            raise common.MachineryError('deviating executions were dropped and none kept')
        return
    flags, diags = common.validate_traces(ctx, 'TraceTree', [it[1] for it in items], what='C->S TraceTree acceptor')
    ctx.traces_validated += len(items)
    ctx.counters['trees_validated_by_acceptor'] += len(items)
    ctx.counters['trees_accepted'] += sum(flags)
    for idx, (case, tr, reason) in enumerate(items):
        if flags[idx]:
            if reason == 'deviation':
                ctx.drift_count += 1
                if len(ctx.drift) < 10:
                    ctx.drift.append(dict(case=case))
            continue
        d = diags.get(idx, {})
        ctx.violation('acceptor-rejects', case, detail=d,
                      sig=dict(clause='acceptor-rejects', kind=tr['kind'],
                               failed=','.join(d.get('failed_clauses', [])) or '?'))
    # deviations beyond the cap were not judged: if none of the judged ones was rejected the run cannot conclude
    if dropped and not ctx.violations:
        raise common.MachineryError('too many deviating executions to validate (%d dropped)' % dropped)


def run(ctx):
    quick = ctx.tier == 'quick'
    ctx.rule = ('TLC parses every string of <= K atoms (alphabets of 41 atoms for the model context with every standard '
                'argument type, 36 atoms for the default database) with the reference parser in strict and tolerant mode and '
                'checks CoverStrict/CoverTolerant on its trees; the real trees must equal them; deviating and sampled real '
                'trees are validated by TLC against the same predicates. Non-trivial: >= 2 top-level nodes or a node with '
                'children.')
    plans = [('k', pc.K_ATOMS, 3), ('default', pc.D_ATOMS, 3)] if quick else \
            [('k', pc.K_ATOMS, 4), ('default', pc.D_ATOMS, 4), ('knounk', pc.SIGMA1 + pc.SIGMA2 + ['\\m', '\\o', '\\z', '\\u'], 4)]
    WS_ATOMS = ['a', ' ', '\n', '\r', '\t', '%', '\\textbf', '{', '}', '~', '\\\\']
    plans.append(('default', WS_ATOMS, 4 if quick else 6))
    plans.append(('k', WS_ATOMS[:6] + ['\\m', '{', '}', '\\s', '*'], 4 if quick else 5))
    pc.SOUP_VOLUME.update(num=150 if quick else 1500, nseeds=8 if quick else 16, seed=ctx.seed)
    plans += [('k', pc.K_ATOMS, pc.SOUP + (9 if quick else 14)), ('default', pc.D_ATOMS, pc.SOUP + (9 if quick else 14))]
    for cname, atoms, K in plans:
        jobs = pc.export_jobs(atoms, cname, K, ['strict', 'tolerant'], ['StrictCover', 'TolerantCover', 'NoNonterm'],
                              payload=dict(sample_every=97 if quick else 997), timeout=6000)
        m = common.run_shards(ctx, ('harness.c01', 'CoverConsumer'), jobs, what='ParseRun %s %s (Cover invariants)' % (cname, pc.kdesc(K)))
        ctx.add_merged(m)
        ctx.log('%s %s: %d strings; %s' % (cname, pc.kdesc(K), m['n'], {k: v for k, v in m['counters'].items() if ':' in k}))
        validate(ctx, m)
    # C->S on the repository's own tests: every top-level parse result the tests produce
    from . import c11
    trees = c11.run_repo_tests(ctx, None, kind='trees')
    if trees:
        flags, diags = common.validate_traces(ctx, 'TraceTree', trees, what='C->S TraceTree acceptor on repository-test trees')
        ctx.traces_validated += len(trees)
        ctx.evaluations += len(trees)
        ctx.counters['repo_test_trees'] += len(trees)
        for idx, tr in enumerate(trees):
            if not flags[idx]:
                d = diags.get(idx, {})
                ctx.violation('acceptor-rejects', dict(s=uncodes(tr['s']), ctx='(repository test)', mode=tr['kind']), detail=d,
                              sig=dict(clause='acceptor-rejects', kind=tr['kind'], failed=','.join(d.get('failed_clauses', [])) or '?',
                                       source='repo-tests'))
        ctx.log('repository tests under the recorder: %d top-level trees, %d accepted' % (len(trees), sum(flags)))
    ctx.exhaustive = True
    ctx.assumptions += ['the default database is represented by its extracted signature table (untranslatable specs: lstlisting)',
                        'tree equality is equality of the public projection (kind, span, names, delimiters, arguments, body, math mode)']


def replay(case):
    c = case['case']
    i = pc.impl_parse(c['s'], c['ctx'], c['mode'], full=True)
    print('input', repr(c['s']), 'ctx', c['ctx'], 'mode', c['mode'])
    if not i['ok'] or i.get('nodelist') is None:
        print('does not parse:', i.get('exc'), i.get('what'))
        return True
    kind = 'cover_strict' if c['mode'] == 'strict' else 'cover_tolerant'
    tr = full_trace(c['s'], kind, i['nodelist'])
    ctx = common.Ctx('C01', 'quick', 0)
    flags, diags = common.validate_traces(ctx, 'TraceTree', [tr])
    print('acceptor:', 'accepts' if flags[0] else 'rejects %r' % diags.get(0))
    return flags[0]

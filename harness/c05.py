# -*- coding: utf-8 -*-
"""C05 -- strict mode rejects unbalanced markup and fails only with a located parse error.

Clause 1 (every string): spec/Parser.tla in strict mode predicts, for every string of
<= K atoms, either a tree or an error with its position; TLC checks StrictErrorLocated
on the model.  The real strict parser must give the same outcome (tree/error, error
position) with line/column of that position; every deviating outcome and a sample of
all outcomes is validated by TLC against spec/Outcome.tla (kind "strict"): anything but
a tree or a LatexWalkerParseError located inside the input with matching line/column is
a violation; a different-but-legal error position is drift.

Clause 2 (single injected fault is rejected): spec/DocWriter.tla writes well-formed
documents and injects one unmatched opening/closing brace, math delimiter, \\begin or
\\end at every token boundary outside verbatim/comments; TLC checks on the composition
DocWriter x Parser that faulted documents are rejected and unfaulted ones accepted;
the real parser must reject every faulted document (acceptor kind "rejects").
"""
from __future__ import annotations

from . import common, parsecommon as pc
from .common import Consumer, uncodes, codes

LEVEL = 'model_checking'


def linecol(s, pos):
    k = s.count('\n', 0, pos)
    start = 0 if k == 0 else [i for i, ch in enumerate(s) if ch == '\n'][k - 1] + 1
    return (k + 1, pos - start)


def outcome_trace(s, i, kind='strict'):
    if i['ok']:
        return dict(kind=kind, s=codes(s), outcome='tree', pos=-1, lineno=-1, colno=-1)
    if i.get('parse_error'):
        return dict(kind=kind, s=codes(s), outcome='parse_error', pos=i['pos'],
                    lineno=-1 if i.get('lineno') is None else i['lineno'],
                    colno=-1 if i.get('colno') is None else i['colno'])
    return dict(kind=kind, s=codes(s), outcome='timeout' if i.get('exc') == 'TIMEOUT' else 'exception',
                pos=-1, lineno=-1, colno=-1, exc=i.get('exc'))


class OutcomeConsumer(Consumer):
    def __init__(self, payload):
        super().__init__(payload)
        self.traces = []

    def keep(self, case, tr, reason):
        if len(self.traces) < 6000:
            self.traces.append((case, tr, reason))
        elif reason == 'deviation':
            self.counters['deviations_not_kept'] += 1

    def feed(self, rec):
        self.n += 1
        s = uncodes(rec['s'])
        ctx = self.payload['ctx']
        res = rec['res']['strict']
        case = dict(s=s, ctx=ctx, mode='strict')
        m = pc.norm_model(res)
        i = pc.impl_parse(s, ctx, 'strict')
        if not m['ok']:
            self.nontrivial += 1
        same = (m['ok'] == i['ok'])
        if same and not m['ok']:
            same = bool(i.get('parse_error')) and i['pos'] == m['pos'] and \
                0 <= i['pos'] <= len(s) and (i.get('lineno'), i.get('colno')) == linecol(s, i['pos'])
        self.sample(dict(case, model=('tree' if m['ok'] else dict(error=res['what'], pos=res['pos']))), every=4999)
        if same:
            self.counters['same:' + ('tree' if m['ok'] else 'error')] += 1
            if self.n % self.payload.get('sample_every', 97) == 0:
                self.keep(case, outcome_trace(s, i), 'sample')
        else:
            self.counters['deviates'] += 1
            self.keep(dict(case, model=m, impl={k: v for k, v in i.items() if k in ('ok', 'exc', 'what', 'pos', 'lineno', 'colno', 'msg')}),
                      outcome_trace(s, i), 'deviation')

    def result(self):
        r = super().result()
        r['extra'] = dict(traces=self.traces)
        return r


def validate(ctx, merged, module='Outcome'):
    items = []
    for ex in merged['extra']:
        items.extend(ex.get('traces', []))
    dropped = merged['counters'].get('deviations_not_kept')
    if not items:
        return
    flags, diags = common.validate_traces(ctx, module, [it[1] for it in items], what='C->S %s acceptor' % module)
    ctx.traces_validated += len(items)
    ctx.counters['outcomes_validated_by_acceptor'] += len(items)
    ctx.counters['outcomes_accepted'] += sum(flags)
    for idx, (case, tr, reason) in enumerate(items):
        if flags[idx]:
            if reason == 'deviation':
                ctx.drift_count += 1
                if len(ctx.drift) < 10:
                    ctx.drift.append(dict(case=case))
            continue
        d = diags.get(idx, {})
        ctx.violation('acceptor-rejects', case, detail=dict(d, outcome=tr.get('outcome'), exc=tr.get('exc'), pos=tr.get('pos')),
                      sig=dict(clause='acceptor-rejects', kind=tr['kind'], outcome=tr.get('outcome'), exc=tr.get('exc'),
                               failed=','.join(d.get('failed_clauses', [])) or '?'))
    # deviations beyond the cap were not judged: if none of the judged ones was rejected the run cannot conclude
    if dropped and not ctx.violations:
        raise common.MachineryError('too many deviating executions to validate (%d dropped)' % dropped)


def run(ctx):
    quick = ctx.tier == 'quick'
    ctx.rule = ('Clause 1: TLC runs the strict reference parser on every string of <= K atoms (41-atom alphabet with a context '
                'covering every standard argument type; 36-atom alphabet with the default database); the real outcome '
                '(tree / error class / position / line / column) must be the predicted one; deviating and sampled outcomes '
                'are validated by TLC against Outcome.tla. Clause 2: see fault_injection in the notes. Non-trivial: the '
                'string is rejected (an error is raised).')
    plans = [('k', pc.K_ATOMS, 3), ('default', pc.D_ATOMS, 3)] if quick else \
            [('k', pc.K_ATOMS, 4), ('default', pc.D_ATOMS, 4)]
    pc.SOUP_VOLUME.update(num=200 if quick else 2000, nseeds=8 if quick else 16, seed=ctx.seed)
    plans += [('k', pc.K_ATOMS, pc.SOUP + (9 if quick else 14)), ('default', pc.D_ATOMS, pc.SOUP + (9 if quick else 14))]
    for cname, atoms, K in plans:
        jobs = pc.export_jobs(atoms, cname, K, ['strict'], ['StrictErrorLocated', 'NoNonterm'],
                              payload=dict(sample_every=53 if quick else 503), timeout=6000)
        m = common.run_shards(ctx, ('harness.c05', 'OutcomeConsumer'), jobs, what='ParseRun strict %s %s' % (cname, pc.kdesc(K)))
        ctx.add_merged(m)
        ctx.log('%s %s: %d strings; %s' % (cname, pc.kdesc(K), m['n'], {k: v for k, v in m['counters'].items() if 'same' in k or 'dev' in k}))
        validate(ctx, m)
    # sensitivity controls: the as_implemented variants of the pinned defects must violate StrictErrorLocated
    for var, name in ((dict(vposnone='as_implemented'), 'error position None when nothing was collected'),
                      (dict(vverb='as_implemented'), 'IndexError for \\verb at end of input')):
        cname, atoms = ('default', ['a', '{', '$', '\\verb', '\\textbf'])
        mc = pc.mc_text(atoms, cname)
        r = common.run_tlc('MC_ParseRun', pc.cfg_text(cname, 2, 2, ['strict'], ['StrictErrorLocated'], var).replace('Shard = 2', 'Shard = %d' % (4 if 'vverb' in var else 2)),
                           mc_text=mc, workers=2, timeout=600)
        ctx.add_tlc(r, 'control: ' + name)
        ctx.control(name, r.violated == 'StrictErrorLocated', str(r.violated) + ' ' + str(r.error))
    try:
        from . import docwriter
    except ImportError:
        docwriter = None
    if docwriter is not None:
        docwriter.run_fault_injection(ctx)
    else:
        ctx.notes['fault_injection'] = 'not built yet'
    ctx.exhaustive = True


def replay(case):
    c = case['case']
    i = pc.impl_parse(c['s'], c['ctx'], 'strict')
    tr = outcome_trace(c['s'], i, kind=case.get('sig', {}).get('kind', 'strict'))
    print('input', repr(c['s']), '->', {k: v for k, v in i.items() if k != 'v'})
    ctx = common.Ctx('C05', 'quick', 0)
    flags, diags = common.validate_traces(ctx, 'Outcome', [tr])
    print('acceptor:', 'accepts' if flags[0] else 'rejects %r' % diags.get(0))
    return flags[0]

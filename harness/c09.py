# -*- coding: utf-8 -*-
"""C09 -- parsing is a pure function of input, context and flags.

spec/ParseHistory.tla makes the state that survives between parse calls explicit
(cached standard-argument parser instances, their lazily created inner parsers, the
nesting counter of the cached verbatim parser, frozen context databases) and
enumerates histories of parse calls.  TLC checks Pure on the intended model and must
find the two-step counterexample in the as_implemented variant (counter kept on the
cached instance).  Binding S->C (exact): every history TLC enumerates is replayed in a
child process forked from a pristine parent that has only imported the package; every
result is compared with the result of the same parse in a *fresh interpreter*
(one subprocess per document), and the projection of the context database before and
after every call must be equal.  Random long histories come from tlc -simulate.
"""
from __future__ import annotations

import json
import os
import subprocess
import sys

from . import common, parsecommon as pc, pstate, proj
from .common import Consumer

LEVEL = 'model_checking'

# (context, mode, source, kinds used, nested verbatim)
DOCS = [
    ('k', 'strict', '\\m{a}\\z b', ['m'], False),
    ('k', 'strict', '\\o[x]{y} \\o{z}', ['o', 'm'], False),
    ('k', 'strict', '\\s*[x]{y}\\s{y}', ['s', 'o', 'm'], False),
    ('k', 'strict', '\\v{a{b}c}', ['v'], True),
    ('k', 'strict', '\\v|x| \\v{y}', ['v'], False),
    ('k', 'strict', '\\r(a)\\d<b>\\d c', ['r', 'd'], False),
    ('k', 'strict', '\\c+ \\t{x}$\\q{y}$', ['t', 'm'], False),
    ('k', 'tolerant', 'a \\m } b \\v{u{v}w}', ['m', 'v'], True),
    ('k', 'strict', '\\begin{e}[o]{m} x \\end{e}\\begin{q}y\\end{q}', ['o', 'm'], False),
    ('kext', 'strict', '\\tens^{i}{R} \\emb|{x}', ['e', 'm'], False),
    ('kext', 'strict', '\\tens_{j}^{i}{R} \\tens{S} \\emb^a_b', ['e', 'm'], False),
    ('kext', 'strict', '\\any(a)\\any<b>\\anyo[c]{d}\\anyo{e} \\s*+{x}\\s+{y}', ['any', 's', 't', 'm'], False),
    ('kext', 'tolerant', '\\begin{e}_{x} \\tens^ \\v{p{q}r} \\end{e} \\any', ['e', 'v', 'any'], True),
    ('default', 'strict', '\\textbf{a} \\verb|x| $\\frac{a}{b}$ \\\\*[2mm] \\item[x]', ['m', 's', 'o'], False),
    ('default', 'tolerant', '\\begin{verbatim}x{\\end{verbatim} \\sqrt[3]{x} \\begin{itemize', ['m', 'o'], False),
    ('default', 'strict', '\\section*{T} \\cite[a][b]{k} \\newcommand*{\\x}[1][d]{#1}', ['s', 'o', 'm'], False),
    # contexts extended while parsing: environment g defines \\entry{}{} and the specials !! for its body only
    ('kdyn', 'strict', '\\begin{g}\\entry{a}{b} !! \\m{x}\\end{g} \\z', ['m'], False),
    ('kdyn', 'strict', '\\entry{a}{b} !! c', [], False),
    ('kdyn2', 'strict', 'a \\begin{e}[o]\\begin{g}\\entry{a}{b}!!\\end{g}\\end{e}', ['o', 'm'], False),
    ('kdyn2', 'tolerant', '\\entry{a}{b}!! \\m', ['m'], False),
    # required vs optional delimited arguments with the same delimiters, present and absent
    ('kext', 'strict', '\\dp(a) b \\dp c', ['d()'], False),
    ('kext', 'tolerant', '\\rp c \\rp(e) f', ['r()'], False),
    ('kext', 'strict', '\\os[g] h \\os i', ['o'], False),
    ('kext', 'tolerant', '\\rs i \\rs[j]', ['r[]'], False),
    # default context obtained anew for every walker (LatexWalker(s) without latex_context): one construct of every category
    ('default_percall', 'strict', '\\begin{lemma}[Zorn] x \\end{lemma} \\begin{proof} y \\end{proof}', ['o'], False),
    ('default_percall', 'strict', '\\section{a} \\textbf{b} \\begin{enumerate}\\item c\\end{enumerate} \\begin{equation}d\\end{equation} '
     '\\cite[e]{f} \\verb|g| \\begin{tabular}{cc}h\\end{tabular} \\newcommand{\\x}{y} \\includegraphics[w]{z} ~', ['m', 'o'], False),
]
POOLS = [list(range(1, 10)), list(range(10, 14)) + list(range(21, 25)), list(range(14, 21)) + [25, 26]]
COLLIDE = [('r()', 'd()'), ('d()', 'r()'), ('r[]', 'o'), ('o', 'r[]')]
LOCAL_DEFS = {17: ['entry', '!!'], 19: ['entry', '!!']}
FREE_NAMES = {18: ['entry', '!!'], 20: ['entry', '!!']}

MC = """---- MODULE MC_ParseHistory ----
EXTENDS ParseHistory
UsesDef == %(uses)s
CtxOfDef == %(ctxof)s
LocalDefsDef == %(local)s
CollideDef == {%(collide)s}
FreeNamesDef == %(free)s
====
"""
CFG = """CONSTANTS
  Docs = {%(docs)s}
  Uses <- UsesDef
  NestedVerb = {%(nested)s}
  CtxOf <- CtxOfDef
  LocalDefs <- LocalDefsDef
  Collide <- CollideDef
  FreeNames <- FreeNamesDef
  MaxLen = %(maxlen)d
  Variant = "%(variant)s"
  Emit_ = %(emit)s
SPECIFICATION Spec
INVARIANT Pure
INVARIANT DbUnchanged
INVARIANT Emit
PROPERTY CacheMonotone
CHECK_DEADLOCK FALSE
"""


def mc():
    uses = ' @@ '.join('(%d :> {%s})' % (i + 1, ', '.join('"%s"' % k for k in d[3])) for i, d in enumerate(DOCS))
    ctxof = ' @@ '.join('(%d :> "%s")' % (i + 1, d[0]) for i, d in enumerate(DOCS))
    names = lambda tab: ' @@ '.join('(%d :> {%s})' % (i + 1, ', '.join('"%s"' % x for x in tab.get(i + 1, []))) for i in range(len(DOCS)))
    return MC % dict(uses=uses, ctxof=ctxof, local=names(LOCAL_DEFS), free=names(FREE_NAMES),
                     collide=', '.join('<<"%s", "%s">>' % c for c in COLLIDE))


def cfg(maxlen, variant='intended', emit=True, docs=None):
    docs = docs or range(1, len(DOCS) + 1)
    return CFG % dict(docs=', '.join(str(i) for i in docs),
                      nested=', '.join(str(i + 1) for i, d in enumerate(DOCS) if d[4]), maxlen=maxlen, variant=variant,
                      emit='TRUE' if emit else 'FALSE')


def parse_doc(idx):
    """Parse document idx (1-based) in this process; returns a JSON-able observation."""
    cname, mode, src = DOCS[idx - 1][:3]
    if cname == 'default_percall':      # a new database object per call: nothing the caller holds could be modified
        r = pc.impl_parse(src, cname, mode)
        return dict(result={k: v for k, v in r.items() if k in ('ok', 'v', 'exc', 'what', 'pos')}, db_unchanged=True)
    db = pstate.get_db(cname)
    before = proj_db(db)
    r = pc.impl_parse(src, cname, mode)
    after = proj_db(db)
    return dict(result={k: v for k, v in r.items() if k in ('ok', 'v', 'exc', 'what', 'pos')}, db_unchanged=(before == after))


def proj_db(db):
    # the `frozen` flag is deliberately not part of the projection: a walker freezes the database it is given
    # (documented protective behaviour); the definitions and their order are what must not change
    out = dict(cats=db.categories())
    for kind, it, attr in (('m', db.iter_macro_specs, 'macroname'), ('e', db.iter_environment_specs, 'environmentname'),
                           ('s', db.iter_specials_specs, 'specials_chars')):
        out[kind] = [(getattr(sp, attr), id(sp), repr(getattr(sp, 'arguments_spec_list', None))) for sp in it()]
    out['unk'] = (id(db.unknown_macro_spec), id(db.unknown_environment_spec), id(db.unknown_specials_spec))
    return out


BASELINE_CODE = r'''
import sys, json, logging
logging.disable(logging.CRITICAL)
sys.path.insert(0, %(verif)r)
from harness import c09
print("BASELINE" + json.dumps(c09.parse_doc(int(sys.argv[1]))["result"], sort_keys=True))
'''


def baselines():
    """One fresh interpreter per document."""
    out = {}
    procs = []
    env = dict(os.environ, PYTHONPATH=os.environ.get('VERIF_REPO', '/repo'), PYTHONHASHSEED='0')
    for i in range(1, len(DOCS) + 1):
        procs.append((i, subprocess.Popen([sys.executable, '-c', BASELINE_CODE % dict(verif=common.VERIF), str(i)],
                                          stdout=subprocess.PIPE, stderr=subprocess.PIPE, text=True, env=env)))
    for i, p in procs:
        so, se = p.communicate(timeout=120)
        line = [l for l in so.splitlines() if l.startswith('BASELINE')]
        if p.returncode != 0 or not line:
            raise common.MachineryError('baseline interpreter for document %d failed: %s' % (i, se[-500:]))
        out[i] = json.loads(line[0][len('BASELINE'):])
    return out


def _child(hist, wfd):
    try:
        obs = [parse_doc(d) for d in hist]
        data = json.dumps(obs, sort_keys=True).encode()
    except BaseException as e:  # noqa
        data = json.dumps({'error': repr(e)}).encode()
    os.write(wfd, data)
    os._exit(0)


def replay_history(hist):
    """Run the history in a child forked from this (pristine) process."""
    r, w = os.pipe()
    pid = os.fork()
    if pid == 0:
        os.close(r)
        _child(hist, w)
    os.close(w)
    chunks = []
    while True:
        b = os.read(r, 1 << 16)
        if not b:
            break
        chunks.append(b)
    os.close(r)
    os.waitpid(pid, 0)
    return json.loads(b''.join(chunks).decode())


class HistConsumer(Consumer):
    """Runs in pool workers that never parse anything themselves (pristine parents)."""

    def feed(self, rec):
        hist = rec['hist']
        if not hist:
            return
        self.n += 1
        if len(set(hist)) >= 2:
            self.nontrivial += 1
        base = self.payload['baselines']
        obs = replay_history(hist)
        case = dict(history=hist, docs=[DOCS[d - 1][:3] for d in hist])
        self.sample(case, every=499)
        if isinstance(obs, dict):
            self.violation('outcome', case, detail=obs, sig=dict(clause='outcome'))
            return
        for k, (d, o) in enumerate(zip(hist, obs)):
            self.counters['parses'] += 1
            if json.loads(json.dumps(o['result'], sort_keys=True)) != base[str(d)]:
                self.violation('result-differs-from-fresh-interpreter', dict(case, step=k + 1),
                               detail=dict(got=str(o['result'])[:400], fresh=str(base[str(d)])[:400]),
                               sig=dict(clause='result-differs', doc=d, uses_verbatim=('v' in DOCS[d - 1][3])))
                return
            if not o['db_unchanged']:
                self.violation('context-database-modified', dict(case, step=k + 1), detail=None,
                               sig=dict(clause='db-modified', doc=d))
                return


def run(ctx):
    quick = ctx.tier == 'quick'
    ctx.rule = ('TLC enumerates every history of parse calls of length <= MaxLen over %d documents (every standard argument '
                'type, nested verbatim, tolerant erroneous input, default database with legacy verbatim parsers); each history '
                'is replayed in a process forked from a pristine parent and compared, call by call, with fresh-interpreter '
                'baselines. Non-trivial: history with >= 2 distinct documents.' % len(DOCS))
    text = mc()
    rc = common.run_tlc('MC_ParseHistory', cfg(3, 'as_implemented', emit=False), mc_text=text, workers=2, timeout=300)
    ctx.add_tlc(rc, 'control: Variant=as_implemented')
    ctx.control('verbatim nesting counter kept on the cached parser violates Pure', rc.violated == 'Pure', str(rc.violated))
    rc = common.run_tlc('MC_ParseHistory', cfg(3, 'key_collision', emit=False), mc_text=text, workers=2, timeout=300)
    ctx.add_tlc(rc, 'control: Variant=key_collision')
    ctx.control('a parser cache whose key identifies required and optional delimited arguments violates Pure',
                rc.violated == 'Pure', str(rc.violated))
    rc = common.run_tlc('MC_ParseHistory', cfg(3, 'ext_leaks', emit=False), mc_text=text, workers=2, timeout=300)
    ctx.add_tlc(rc, 'control: Variant=ext_leaks')
    ctx.control('a context extension that writes into the extended database violates DbUnchanged / Pure',
                rc.violated in ('DbUnchanged', 'Pure'), str(rc.violated))
    base = {str(k): v for k, v in baselines().items()}
    ctx.notes['baseline_interpreters'] = len(base)
    # every history of <= L calls over all documents, and of <= L + 1 calls within each pool of documents that share a context
    # family (the documents of a pool use the same argument kinds and databases, where carried state can meet)
    L = 2 if quick else 3
    plans = [(None, L)] + [(pool, L + 1) for pool in POOLS]
    tot = 0
    for docs, maxlen in plans:
        job = dict(payload=dict(baselines=base), main='MC_ParseHistory', mc=text, cfg=cfg(maxlen, docs=docs),
                   tlc_kw=dict(timeout=3000, workers=1))
        m = common.run_dispatch(ctx, ('harness.c09', 'HistConsumer'), job,
                                what='ParseHistory: histories <= %d over %s' % (maxlen, 'all documents' if docs is None else 'pool %s' % docs), batch=25)
        ctx.add_merged(m)
        tot += m['n']
        ctx.log('exhaustive <= %d calls over %s: %d histories, %d parses' % (
            maxlen, 'all %d documents' % len(DOCS) if docs is None else 'documents %s' % docs, m['n'], m['counters'].get('parses', 0)))
    sim = dict(payload=dict(baselines=base), main='MC_ParseHistory', mc=text, cfg=cfg(12),
               tlc_kw=dict(timeout=600, workers=1, simulate='num=%d' % (30 if quick else 400), depth=13,
                           seed=ctx.seed % (2 ** 31)))
    m2 = common.run_dispatch(ctx, ('harness.c09', 'HistConsumer'), sim, what='ParseHistory: simulate', batch=25,
                             allow_timeout=True)
    ctx.add_merged(m2)
    ctx.log('simulate: %d history prefixes' % m2['n'])
    ctx.exhaustive = True
    ctx.assumptions += ['process state is inherited by fork from a parent that has imported pylatexenc but parsed nothing',
                        'results compared through the public projection of trees']


def replay(case):
    c = case['case']
    base = baselines()
    obs = replay_history(c['history'])
    ok = True
    for d, o in zip(c['history'], obs):
        same = json.loads(json.dumps(o['result'], sort_keys=True)) == base[d]
        print('doc', d, DOCS[d - 1][:3], 'same as fresh interpreter:', same, 'db unchanged:', o['db_unchanged'])
        ok = ok and same and o['db_unchanged']
    return ok

# -*- coding: utf-8 -*-
"""One source of truth for parsing-state configurations: a plain dict is turned
both into the TLA+ record used by Tokenizer.tla/Parser.tla and into the real
ParsingState."""
from __future__ import annotations

from .common import tla_seq, TlaLit

DEFAULT = dict(
    in_math=False, mdelim='',
    inline=[('$', '$'), ('\\(', '\\)')],
    display=[('$$', '$$'), ('\\[', '\\]')],
    groups=[('{', '}')],
    en_par=True, en_macros=True, en_envs=True, en_comments=True, en_groups=True, en_specials=True,
    en_math=True, esc='\\', cmt='%', forbidden='',
    ctx='default',      # 'default' (default walker db) | 'none' | name of a model context
)


def make(**kw):
    d = dict(DEFAULT)
    d.update(kw)
    return d


_db_cache = {}


def get_db(name):
    """Context databases by name.  'default' is the default latexwalker database."""
    if name == 'none':
        return None
    if name == 'default_percall':
        # what LatexWalker(s) does when no context is given: a new default database for every walker
        from pylatexenc.latexwalker import get_default_latex_context_db
        return get_default_latex_context_db()
    if name not in _db_cache:
        if name == 'default':
            from pylatexenc.latexwalker import get_default_latex_context_db
            _db_cache[name] = get_default_latex_context_db()
        else:
            from . import contexts
            _db_cache[name] = contexts.build(name)
    return _db_cache[name]


def specials_of(name):
    """(D) data extraction: the specials sequences of a database in lookup order."""
    db = get_db(name)
    if db is None:
        return []
    return [sp.specials_chars for sp in db.iter_specials_specs()]


def real_kwargs(d):
    kw = dict(
        latex_context=get_db(d['ctx']),
        in_math_mode=d['in_math'], math_mode_delimiter=(d['mdelim'] or None),
        latex_inline_math_delimiters=[tuple(x) for x in d['inline']],
        latex_display_math_delimiters=[tuple(x) for x in d['display']],
        latex_group_delimiters=[tuple(x) for x in d['groups']],
        enable_double_newline_paragraphs=d['en_par'], enable_macros=d['en_macros'],
        enable_environments=d['en_envs'], enable_comments=d['en_comments'], enable_groups=d['en_groups'],
        enable_specials=d['en_specials'], enable_math=d['en_math'],
        macro_escape_char=d['esc'], comment_start=d['cmt'], forbidden_characters=d['forbidden'],
    )
    return kw


def real_state(d):
    from pylatexenc.latexnodes import ParsingState
    return ParsingState(**real_kwargs(d))


def tla_record(d):
    sp = specials_of(d['ctx'])
    par_special = '\n\n' in sp
    sp = [x for x in sp if x != '\n\n']
    fields = [
        ('in_math', d['in_math']), ('mdelim', d['mdelim']),
        ('inline', [[a, b] for a, b in d['inline']]),
        ('display', [[a, b] for a, b in d['display']]),
        ('groups', [[ord(a), ord(b)] for a, b in d['groups']]),
        ('en_par', d['en_par']), ('en_macros', d['en_macros']), ('en_envs', d['en_envs']),
        ('en_comments', d['en_comments']), ('en_groups', d['en_groups']), ('en_specials', d['en_specials']),
        ('en_math', d['en_math']), ('alpha', TlaLit('AlphaDefault')), ('esc', ord(d['esc'])),
        ('cmt', d['cmt']), ('forbidden', set(ord(c) for c in d['forbidden'])),
        ('has_ctx', d['ctx'] != 'none'), ('par_special', par_special), ('specials', sp),
    ]
    if 'tol' in d:
        fields.append(('tol', bool(d['tol'])))
    out = []
    for k, v in fields:
        if isinstance(v, set) and not v:
            out.append('%s |-> {}' % k)
        elif isinstance(v, list) and not v:
            out.append('%s |-> <<>>' % k)
        else:
            out.append('%s |-> %s' % (k, tla_seq(v)))
    return '[' + ', '.join(out) + ']'


def atoms_tla(atoms):
    return '<< ' + ', '.join(tla_seq(a) for a in atoms) + ' >>'


def proj_token(t):
    """Canonical projection of a real LatexToken (public attributes only), in the shape of
    Tokenizer!Tok."""
    arg = t.arg
    if t.tok == 'specials':
        arg = arg.specials_chars
    from .proj import _int
    return dict(t=t.tok, arg=[ord(c) for c in (arg if isinstance(arg, str) else '')], pos=_int(t.pos), pos_end=_int(t.pos_end),
                pre=len(t.pre_space or ''), post=len(getattr(t, 'post_space', '') or ''))

# -*- coding: utf-8 -*-
"""C08 -- encoding to LaTeX and converting back to text returns the original string.

spec/RoundTrip.tla composes the encoder model, the reference parser and the renderer
model over representatives of the character classes (defined by the shape of the table
entry); TLC checks RoundTripIdentity for every string of representatives, each of the
four brace-protection schemes and the default and strict whitespace policies.  The
invertible alphabet is frozen in data/c08_alphabet.json (characters whose isolated round
trip was the identity at the pinned commit, with their class), so that a character
silently dropping out is a violation.  Binding S->C, exact: the model's encoded and
decoded strings must equal the real encoder's / latex_to_text's; then every class string
is instantiated with concrete members so that every alphabet character appears alone,
and before and after a member of every class, under every scheme and both policies, and
the real round trip must be the identity.
"""
from __future__ import annotations

import json
import os
import unicodedata

from . import common, contexts, pstate, l2tspec, c04, c04_extra
from .common import Consumer, uncodes, codes, tla_seq, guarded

LEVEL = 'model_checking'

SCHEMES = ['braces', 'braces-almost-all', 'braces-all', 'braces-after-macro']
POLS = {'macros': 'macros', 'true': True}
LIGATURES = [('-', '-'), ('`', '`'), ("'", "'"), ('!', '`'), ('?', '`')]
REPS = ['a', 'Z', ',', '-', ' ', '\n', '#', '{', '\\', '¡', 'Á', 'Å', 'ā', '<', 'Γ', ' ', '~', "'"]
DATA = os.path.join(common.VERIF, 'data', 'c08_alphabet.json')

MC = """---- MODULE MC_RoundTrip ----
EXTENDS RoundTrip
RepsDef == << %(reps)s >>
CfgsDef == << %(cfgs)s >>
St0Def == %(st0)s
LigDef == {%(lig)s}
%(ctxdefs)s
%(textdefs)s
====
"""
CFG = """CONSTANTS
  Reps <- RepsDef
  K = %(K)d
  Shard = %(shard)d
  Cfgs <- CfgsDef
  PolNames = {"macros", "true"}
  St0 <- St0Def
  Ligatures <- LigDef
%(ctxconst)s
  MacroText <- MacroTextDef
  EnvText <- EnvTextDef
  SpecialsText <- SpecialsTextDef
  NfcTab <- NfcTabDef
SPECIFICATION Spec
INVARIANT RoundTripIdentity
INVARIANT Emit
CHECK_DEADLOCK FALSE
"""


def odd_paragraph(s):
    import re
    # a whitespace run with two or more newlines round-trips only if the newlines are exactly two adjacent ones
    # (blanks before the first and after the last newline are preserved)
    return any(r.count('\n') >= 2 and r.strip(' \t') != '\n\n' for r in re.findall(r'[ \t\n]+', s))


KNOWN_PROBES = ['\n \n', '\n\n\n', 'a\n \nb', 'a \n\n\n b']


def load_alphabet():
    with open(DATA) as f:
        d = json.load(f)
    return [chr(c) for c in d['chars']], {chr(int(k)): v for k, v in d['classes'].items()}


def mc_text():
    tab = c04_extra.table('defaults')
    ent = [(ord(c), tab[ord(c)]) for c in REPS if ord(c) in tab]
    rule = c04.rule_tla(('dict', ent, ''))
    cf = ', '.join('[rules |-> << %s >>, scheme |-> "%s", policy |-> "keep", non_ascii_only |-> FALSE]' % (rule, s)
                   for s in SCHEMES)
    atoms = [rep for _cp, rep in ent] + [c for c in REPS if ord(c) not in tab] + ['{', '}', '\\']
    only = contexts.names_in_atoms('default', atoms, 4)
    macs, envs = contexts.formable_names(atoms, 4)
    st = pstate.make(ctx='default', tol=True)
    bases = sorted(set(ord(ch) for a in atoms for ch in a if ch.isalpha()) | {32, 305, 567})
    return MC % dict(reps=', '.join(str(ord(c)) for c in REPS), cfgs=cf,
                     st0=pstate.tla_record(st).replace('AlphaDefault', 'L!AlphaDefault'),
                     lig=', '.join('<<%d, %d>>' % (ord(a), ord(b)) for a, b in LIGATURES),
                     ctxdefs=contexts.tla_defs('default', only=only),
                     textdefs=l2tspec.tla_defs(macs, envs, [s for s in pstate.specials_of('default') if s != '\n\n'], bases))


_enc, _l2t = {}, {}


_bystanders = []


def bystanders():
    """Other encoders / converters alive in the same process, built once before the first round trip with every
    documented form of their options (preset names, booleans, dictionaries, each scheme and policy) and used once.
    The round trip of one (scheme, policy) pair must not depend on which other objects exist."""
    if _bystanders:
        return
    from pylatexenc.latexencode import UnicodeToLatexEncoder, unicode_to_latex
    from pylatexenc.latex2text import LatexNodes2Text
    for sls in ('macros', 'based-on-source', 'except-in-equations', True, False, None,
                {'between-macro-and-chars': True, 'between-latex-constructs': False},
                {'between-macro-and-chars': False, 'between-latex-constructs': False, 'after-comment': True, 'in-equations': True},
                {'in-equations': {'between-macro-and-chars': False}}):
        for mm in ('text', 'with-delimiters', 'verbatim', 'remove'):
            o = LatexNodes2Text(strict_latex_spaces=sls, math_mode=mm, keep_comments=(mm == 'text'), keep_braced_groups=(mm == 'remove'))
            o.latex_to_text('a \\alpha b {c} {d} $x$ %e\n')
            _bystanders.append(o)
    for prot in ('braces', 'braces-all', 'braces-almost-all', 'braces-after-macro', 'none'):
        for pol in ('keep', 'replace', 'ignore', 'unihex'):
            e = UnicodeToLatexEncoder(replacement_latex_protection=prot, unknown_char_policy=pol, non_ascii_only=(pol == 'ignore'),
                                      unknown_char_warning=False)
            e.unicode_to_latex('a\u00e9 \ue000 %')
            unicode_to_latex('a\u00e9 \ue000 %', replacement_latex_protection=prot, unknown_char_policy=pol, unknown_char_warning=False)
            _bystanders.append(e)


def real_roundtrip(s, scheme, pol):
    from pylatexenc.latexencode import UnicodeToLatexEncoder
    from pylatexenc.latex2text import LatexNodes2Text
    bystanders()
    if scheme not in _enc:
        _enc[scheme] = UnicodeToLatexEncoder(replacement_latex_protection=scheme, unknown_char_warning=False)
    if pol not in _l2t:
        _l2t[pol] = LatexNodes2Text(strict_latex_spaces=POLS[pol])
    e = _enc[scheme].unicode_to_latex(s)
    return e, _l2t[pol].latex_to_text(e)


class RtConsumer(Consumer):
    def feed(self, rec):
        self.n += 1
        s = uncodes(rec['s'])
        scheme = SCHEMES[rec['ci'] - 1]
        if len(s) >= 2:
            self.nontrivial += 1
        case = dict(s=s, codepoints=rec['s'], scheme=scheme, policy=rec['pol'])
        self.sample(dict(case, encoded=uncodes(rec['enc'])), every=4999)
        st, val = guarded(real_roundtrip, s, scheme, rec['pol'])
        if st != 'ok':
            self.violation('outcome', case, detail=dict(status=st, exc=repr(val)), sig=dict(clause='outcome', exc=type(val).__name__))
            return
        e, d = val
        if d != s:
            self.violation('roundtrip-not-identity', case, detail=dict(encoded=e, decoded=d), sig=dict(clause='roundtrip-not-identity'))
            return
        if e != uncodes(rec['enc']) or d != uncodes(rec['dec']):
            self.add_drift(case, detail=dict(model_enc=uncodes(rec['enc']), impl_enc=e))
        else:
            self.counters['same'] += 1


def _inst_worker(batch):
    out = []
    for s, scheme, pol in batch:
        st, val = guarded(real_roundtrip, s, scheme, pol)
        if st != 'ok':
            out.append((s, scheme, pol, 'outcome', repr(val)))
        elif val[1] != s:
            out.append((s, scheme, pol, 'roundtrip-not-identity', dict(encoded=val[0], decoded=val[1])))
    return (len(batch), out)


def run(ctx):
    quick = ctx.tier == 'quick'
    chars, classes = load_alphabet()
    ctx.rule = ('TLC checks RoundTripIdentity for every string of <= K class representatives (%d representatives, ligature '
                'pairs excluded) x 4 schemes x 2 policies on the composed model; every one of the %d frozen alphabet characters '
                'is round-tripped alone and before/after a member of every class under every scheme and both policies. '
                'Non-trivial: string of >= 2 characters.' % (len(REPS), len(chars)))
    K = 3 if quick else 4
    text = mc_text()
    jobs = [dict(main='MC_RoundTrip', mc=text,
                 cfg=CFG % dict(K=K, shard=sh, ctxconst=contexts.cfg_constants('default').rstrip('\n')),
                 tlc_kw=dict(timeout=6000, xmx='3g')) for sh in range(0, len(REPS) + 1)]
    m = common.run_shards(ctx, ('harness.c08', 'RtConsumer'), jobs, what='RoundTrip representatives, strings <= %d' % K)
    ctx.add_merged(m)
    ctx.log('model composition: %d (string, scheme, policy) cases; %s' % (m['n'], {k: v for k, v in m['counters'].items() if k in ('same', 'drift')}))
    # exhaustive instantiation with concrete members
    byclass = {}
    for ch in chars:
        byclass.setdefault(classes[ch], []).append(ch)
    lig = set(LIGATURES)
    work = []
    classnames = sorted(byclass)
    for idx, ch in enumerate(chars):
        strings = [ch, ch + ch]
        for cn in classnames:
            other = byclass[cn][idx % len(byclass[cn])]
            strings += [ch + other, other + ch, other + ch + other]
        strings += ['a ' + ch + ' b', ch + '\n\n' + ch, '(' + ch + ')']
        for s in strings:
            if any((s[i], s[i + 1]) in lig for i in range(len(s) - 1)):
                continue
            if unicodedata.normalize('NFC', s) != s or odd_paragraph(s):
                continue
            for sc in SCHEMES:
                for pol in POLS:
                    work.append((s, sc, pol))
    if quick:
        work = work[::2]
    batches = [work[i:i + 3000] for i in range(0, len(work), 3000)]
    res = common.pool_map(_inst_worker, batches)
    n = 0
    for cnt, bad in res:
        n += cnt
        for s, sc, pol, clause, det in bad:
            ctx.violation(clause, dict(s=s, codepoints=codes(s), scheme=sc, policy=pol), detail=det,
                          sig=dict(clause=clause, first_class=classes.get(s[0], '?')))
    for s in KNOWN_PROBES:          # inputs excluded from the enumeration because of the recorded finding
        for sc in SCHEMES[:1]:
            e, d = real_roundtrip(s, sc, 'macros')
            n += 1
            if d != s:
                ctx.violation('roundtrip-not-identity', dict(s=s, codepoints=codes(s), scheme=sc, policy='macros'),
                              detail=dict(encoded=e, decoded=d),
                              sig=dict(clause='roundtrip-not-identity', cause='paragraph-whitespace-normalised'))
    ctx.evaluations += n
    ctx.traces_validated += n
    ctx.nontrivial += n
    ctx.log('instantiation: %d round trips over %d alphabet characters in %d classes' % (n, len(chars), len(classnames)))
    ctx.exhaustive = True
    ctx.assumptions += ['the invertible alphabet is the frozen list data/c08_alphabet.json',
                        'ligature adjacencies (-- `` \'\' !` ?`) are excluded from the inputs, as the property states']


def replay(case):
    c = case['case']
    e, d = real_roundtrip(c['s'], c['scheme'], c['policy'])
    print(repr(c['s']), c['scheme'], c['policy'], '->', repr(e), '->', repr(d))
    return d == c['s']

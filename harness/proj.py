# -*- coding: utf-8 -*-
"""Canonical projections of implementation objects (public attributes only)."""
from __future__ import annotations


def codes(x):
    return [ord(c) for c in x]


def _int(x):
    """positions are integers in every record handed to TLC: a missing / non-integer position becomes -1, which no
    acceptor clause about spans accepts (a node without a proper span is then a rejected observation, not a type error)"""
    return x if isinstance(x, int) and not isinstance(x, bool) else -1


def proj_node(n):
    """Node -> dict in the shape of Parser.tla's node records."""
    import pylatexenc.latexnodes.nodes as N
    if n is None:
        return None
    ps = n.parsing_state
    d = dict(k=None, pos=_int(n.pos), end=_int(n.pos_end), name=[], delims=[], disp="", args=[], body=[], hasbody=False,
             math=bool(ps.in_math_mode) if ps is not None else None,
             mdelim=codes((ps.math_mode_delimiter or '') if ps is not None else ''), post=0)
    if isinstance(n, N.LatexCharsNode):
        d['k'] = 'chars'
    elif isinstance(n, N.LatexCommentNode):
        d['k'] = 'comment'
        d['post'] = len(n.comment_post_space or '')
    elif isinstance(n, N.LatexGroupNode):
        d.update(k='group', delims=[codes(n.delimiters[0]), codes(n.delimiters[1])],
                 body=proj_list(n.nodelist), hasbody=n.nodelist is not None)
    elif isinstance(n, N.LatexMathNode):
        d.update(k='math', delims=[codes(n.delimiters[0]), codes(n.delimiters[1])], disp=n.displaytype,
                 body=proj_list(n.nodelist), hasbody=n.nodelist is not None)
    elif isinstance(n, N.LatexMacroNode):
        d.update(k='macro', name=codes(n.macroname), args=proj_args(n), post=len(n.macro_post_space or ''))
    elif isinstance(n, N.LatexEnvironmentNode):
        d.update(k='env', name=codes(n.environmentname), args=proj_args(n), body=proj_list(n.nodelist),
                 hasbody=n.nodelist is not None)
    elif isinstance(n, N.LatexSpecialsNode):
        d.update(k='specials', name=codes(n.specials_chars), args=proj_args(n))
    else:
        d['k'] = 'unknown:' + type(n).__name__
    return d


def proj_list(nl):
    if nl is None:
        return []
    return [proj_node(x) for x in nl]


def V(x):
    """Python value (None | node | node list) -> value record of Parser.tla"""
    from pylatexenc.latexnodes.nodes import LatexNodeList
    if x is None:
        return dict(vk='none', ns=[])
    if isinstance(x, (LatexNodeList, list, tuple)):
        return dict(vk='list', ns=[proj_node(y) for y in x])
    return dict(vk='node', ns=[proj_node(x)])


def proj_args(n):
    """argnlist -> list of slot values"""
    if getattr(n, 'nodeargd', None) is None:
        return []
    al = getattr(n.nodeargd, 'argnlist', None)
    if al is None:
        return []
    return [V(a) for a in al]


def add_text(d, n):
    """Extend a projected node (recursively) with the text carried by chars / comment nodes."""
    import pylatexenc.latexnodes.nodes as N
    if d is None or n is None:
        return d
    if isinstance(n, N.LatexCharsNode):
        d['txt'] = codes(n.chars)
    elif isinstance(n, N.LatexCommentNode):
        d['txt'] = codes(n.comment)
    return d


def proj_node_full(n):
    """As proj_node, plus `txt` on chars/comment nodes (for the Cover acceptor)."""
    import pylatexenc.latexnodes.nodes as N
    from pylatexenc.latexnodes.nodes import LatexNodeList
    d = proj_node(n)
    if d is None:
        return None
    add_text(d, n)
    if getattr(n, 'nodeargd', None) is not None and getattr(n.nodeargd, 'argnlist', None) is not None:
        args = []
        for a in n.nodeargd.argnlist:
            if a is None:
                args.append(dict(vk='none', ns=[]))
            elif isinstance(a, (LatexNodeList, list, tuple)):
                args.append(dict(vk='list', ns=[proj_node_full(y) for y in a if y is not None]))
            else:
                args.append(dict(vk='node', ns=[proj_node_full(a)]))
        d['args'] = args
    nl = getattr(n, 'nodelist', None)
    if nl is not None and not isinstance(n, (N.LatexCharsNode, N.LatexCommentNode)):
        d['body'] = [proj_node_full(y) for y in nl if y is not None]
    return d

# -*- coding: utf-8 -*-
"""Canonical projections of implementation objects (public attributes only)."""
from __future__ import annotations


def codes(x):
    return [ord(c) for c in x]


def proj_node(n):
    """Node -> dict in the shape of Parser.tla's node records."""
    import pylatexenc.latexnodes.nodes as N
    if n is None:
        return None
    ps = n.parsing_state
    d = dict(k=None, pos=n.pos, end=n.pos_end, name=[], delims=[], disp="", args=[], body=[], hasbody=False,
             math=bool(ps.in_math_mode) if ps is not None else None,
             mdelim=codes((ps.math_mode_delimiter or '') if ps is not None else ''), post=0)
    if isinstance(n, N.LatexCharsNode):
        d['k'] = 'chars'
    elif isinstance(n, N.LatexCommentNode):
        d['k'] = 'comment'
        d['post'] = len(n.comment_post_space or '')
    elif isinstance(n, N.LatexGroupNode):
        d.update(k='group', delims=[codes(n.delimiters[0]), codes(n.delimiters[1])],
                 body=proj_list(n.nodelist), hasbody=n.nodelist is not None)
    elif isinstance(n, N.LatexMathNode):
        d.update(k='math', delims=[codes(n.delimiters[0]), codes(n.delimiters[1])], disp=n.displaytype,
                 body=proj_list(n.nodelist), hasbody=n.nodelist is not None)
    elif isinstance(n, N.LatexMacroNode):
        d.update(k='macro', name=codes(n.macroname), args=proj_args(n), post=len(n.macro_post_space or ''))
    elif isinstance(n, N.LatexEnvironmentNode):
        d.update(k='env', name=codes(n.environmentname), args=proj_args(n), body=proj_list(n.nodelist),
                 hasbody=n.nodelist is not None)
    elif isinstance(n, N.LatexSpecialsNode):
        d.update(k='specials', name=codes(n.specials_chars), args=proj_args(n))
    else:
        d['k'] = 'unknown:' + type(n).__name__
    return d


def proj_list(nl):
    if nl is None:
        return []
    return [proj_node(x) for x in nl]


def proj_args(n):
    """argnlist -> list of slots; slot = [] (absent) | [node] | ['LIST', nodes...]"""
    from pylatexenc.latexnodes.nodes import LatexNodeList
    if getattr(n, 'nodeargd', None) is None:
        return []
    al = getattr(n.nodeargd, 'argnlist', None)
    if al is None:
        return []
    out = []
    for a in al:
        if a is None:
            out.append([])
        elif isinstance(a, LatexNodeList):
            out.append(['LIST'] + [proj_node(x) for x in a])
        else:
            out.append([proj_node(a)])
    return out

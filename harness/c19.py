# -*- coding: utf-8 -*-
"""C19 -- a node visitor sees every node exactly once, children first, in document order.

Tier A: spec/Visit.tla (acceptor over callback logs).  Tier B: spec/VisitorRef.tla, the
depth-first traversal as an explicit-stack machine on every abstract tree shape up to N
vertices (with None placeholders); TLC checks the machine's log against the Tier-A
clauses and termination, and a wrong-order variant is a sensitivity control.
Binding C->S: real trees -- produced by the real parser, strict and tolerant, on every
string TLC's ParseRun export enumerates (tolerant trees contain None bodies and
placeholders) -- are traversed by a recording LatexNodesVisitor; the structure is
obtained by an independent walk over public attributes; every log is validated by TLC
against Visit.tla.  Corrupted logs must be rejected (binding demonstration).
"""
from __future__ import annotations

import json

import copy

from . import common, parsecommon as pc
from .common import Consumer, uncodes

LEVEL = 'model_checking'

CB = dict(chars='visit_chars_node', comment='visit_comment_node', group='visit_group_node', math='visit_math_node',
          macro='visit_macro_node', environment='visit_environment_node', specials='visit_specials_node',
          list='visit_node_list', pargs='visit_parsed_arguments', unknown='visit_unknown_node')


class Struct(object):
    """independent walk over public attributes -> table id -> (kind, child ids, 0 = None)"""

    def __init__(self):
        self.ids = {}
        self.tab = []
        self.keep = []

    def nid(self, o):
        k = id(o)
        if k not in self.ids:
            self.ids[k] = len(self.tab) + 1
            self.tab.append(None)
            self.keep.append(o)
        return self.ids[k]

    def walk(self, o):
        import pylatexenc.latexnodes.nodes as N
        from pylatexenc.latexnodes import ParsedArguments
        if o is None:
            return 0
        i = self.nid(o)
        W = self.walk
        if isinstance(o, N.LatexNodeList):
            kind, ch = 'list', [W(x) for x in o.nodelist]
        elif isinstance(o, ParsedArguments):
            kind, ch = 'pargs', [W(x) for x in (o.argnlist or [])]
        elif isinstance(o, N.LatexCharsNode):
            kind, ch = 'chars', []
        elif isinstance(o, N.LatexCommentNode):
            kind, ch = 'comment', []
        elif isinstance(o, N.LatexGroupNode):
            kind, ch = 'group', [W(x) for x in (o.nodelist or [])]
        elif isinstance(o, N.LatexMathNode):
            kind, ch = 'math', [W(x) for x in (o.nodelist or [])]
        elif isinstance(o, N.LatexMacroNode):
            kind, ch = 'macro', ([W(o.nodeargd)] if o.nodeargd is not None else [])
        elif isinstance(o, N.LatexSpecialsNode):
            kind, ch = 'specials', ([W(o.nodeargd)] if o.nodeargd is not None else [])
        elif isinstance(o, N.LatexEnvironmentNode):
            kind, ch = 'environment', ([W(o.nodeargd)] if o.nodeargd is not None else []) + \
                [W(x) for x in (o.nodelist or [])]
        else:
            kind, ch = 'unknown', []
        self.tab[i - 1] = dict(kind=CB[kind], ch=ch)
        return i


def record(nl):
    """Returns a trace dict(root, tab, ev) for visiting `nl` with a recording visitor."""
    from pylatexenc.latexnodes.nodes import LatexNodesVisitor
    st = Struct()
    root = st.walk(nl)
    events = []

    def mk(cbname):
        def cb(self, node, **kw):
            i = st.ids.get(id(node), -1)
            res = []
            for k in ('visited_results_arguments', 'visited_results_argnlist', 'visited_results_nodelist',
                      'visited_results_body'):
                if k not in kw:
                    continue
                v = kw[k]
                if isinstance(v, list):
                    res.extend([(x if isinstance(x, int) else 0) for x in v])
                elif isinstance(v, int) and not isinstance(v, bool):
                    res.append(v)
            extra = sorted(set(kw) - {'visited_results_arguments', 'visited_results_argnlist',
                                      'visited_results_nodelist', 'visited_results_body'})
            events.append(dict(id=i, res=res, cb=cbname + (('+' + ','.join(extra)) if extra else '')))
            return i
        return cb
    Rec = type('Rec', (LatexNodesVisitor,), {name: mk(name) for name in set(CB.values())})
    Rec().start(nl)
    return dict(root=root, tab=st.tab, ev=events)


class VisitConsumer(Consumer):
    def __init__(self, payload):
        super().__init__(payload)
        self.traces = []
        self.seen = set()       # a log is a pure structure (ids, callbacks, results): equal logs get equal verdicts,
                                # so each distinct log is kept (and judged by TLC) once, with the first input that produced it

    def feed(self, rec):
        self.n += 1
        s = uncodes(rec['s'])
        ctx = self.payload['ctx']
        for mode in rec['res']:
            if mode == 'strict' and not rec['res'][mode]['ok']:
                continue
            i = pc.impl_parse(s, ctx, mode, full=True)
            if not i['ok'] or i.get('nodelist') is None:
                self.counters['no_tree:' + mode] += 1
                continue
            st, val = common.guarded(record, i['nodelist'])
            case = dict(s=s, ctx=ctx, mode=mode)
            if st != 'ok':
                self.violation('outcome', case, detail=dict(status=st, exc=repr(val)),
                               sig=dict(clause='outcome', exc=type(val).__name__))
                continue
            self.counters['logs:' + mode] += 1
            self.counters['events'] += len(val['ev'])
            if len(val['tab']) >= 4:
                self.nontrivial += 1
            key = hash(json.dumps(val, sort_keys=True))
            if key in self.seen:
                self.counters['logs_equal_to_an_earlier_one'] += 1
            else:
                self.seen.add(key)
                self.traces.append((case, val))
        self.sample(dict(s=s, ctx=ctx), every=4999)

    def result(self):
        r = super().result()
        r['extra'] = dict(traces=self.traces)
        return r


def run(ctx):
    quick = ctx.tier == 'quick'
    ctx.rule = ('Reference: TLC explores the DFS machine on every abstract tree of <= N vertices with optional None '
                'children. Implementation: every real tree (strict-accepted and tolerant) of every string of <= K atoms '
                'under the model context and the default database is traversed by a recording visitor and its callback log '
                'validated by TLC against Visit.tla. Non-trivial: structure with >= 4 vertices.')
    N = 5 if quick else 6
    cfg = 'CONSTANTS\n  N = %d\n  Variant = "%s"\nSPECIFICATION Spec\nINVARIANT LogIsPostOrder\nPROPERTY Terminates\nCHECK_DEADLOCK FALSE\n'
    r = common.run_tlc('VisitorRef', cfg % (N, 'intended'), workers=common.NPROC, timeout=1800, xmx='8g')
    ctx.add_tlc(r, 'VisitorRef: DFS machine on all trees <= %d vertices' % N)
    common.tlc_must_pass(r, 'VisitorRef')
    rc = common.run_tlc('VisitorRef', cfg % (3, 'as_wrong_order'), workers=2, timeout=300)
    ctx.add_tlc(rc, 'control: parent visited before its children')
    ctx.control('pre-order traversal violates LogIsPostOrder', rc.violated == 'LogIsPostOrder', str(rc.violated))
    plans = [('k', pc.K_ATOMS, 3 if quick else 4), ('default', pc.D_ATOMS, 2 if quick else 3)]
    all_items = []
    pc.SOUP_VOLUME.update(num=100 if quick else 1000, nseeds=8 if quick else 16, seed=ctx.seed)
    plans += [('k', pc.K_ATOMS, pc.SOUP + (9 if quick else 14)), ('default', pc.D_ATOMS, pc.SOUP + (9 if quick else 14))]
    for cname, atoms, K in plans:
        jobs = pc.export_jobs(atoms, cname, K, ['strict', 'tolerant'], ['NoNonterm'], timeout=6000)
        m = common.run_shards(ctx, ('harness.c19', 'VisitConsumer'), jobs, what='ParseRun %s %s (documents for visitor logs)' % (cname, pc.kdesc(K)))
        ctx.add_merged(m, validated=False)
        items = []
        seen = set()
        for ex in m['extra']:
            for it in ex.get('traces', []):
                key = hash(json.dumps(it[1], sort_keys=True))
                if key not in seen:
                    seen.add(key)
                    items.append(it)
        ctx.log('%s %s: %d strings, %d visitor logs, %d callbacks' % (cname, pc.kdesc(K), m['n'], len(items), m['counters'].get('events', 0)))
        flags, diags = common.validate_traces(ctx, 'Visit', [it[1] for it in items], what='C->S Visit acceptor', chunk=40000)
        ctx.traces_validated += len(items)
        ctx.counters['logs_validated'] += len(items)
        for idx, (case, tr) in enumerate(items):
            if not flags[idx]:
                d = diags.get(idx, {})
                ctx.violation('acceptor-rejects', case, detail=d,
                              sig=dict(clause='acceptor-rejects', failed=','.join(d.get('failed_clauses', [])) or '?'))
        all_items = all_items or items
    # binding demonstration: corrupted logs must be rejected
    good = [tr for _c, tr in all_items if len(tr['ev']) >= 4][:60]
    bad = []
    for k, tr in enumerate(good):
        t = copy.deepcopy(tr)
        if k % 3 == 0:
            t['ev'][0], t['ev'][1] = t['ev'][1], t['ev'][0]          # order swapped
        elif k % 3 == 1:
            del t['ev'][len(t['ev']) // 2]                             # one vertex skipped
        else:
            j = next((j for j, e in enumerate(t['ev']) if e['res']), None)
            if j is None:
                continue
            t['ev'][j]['res'] = t['ev'][j]['res'][:-1]                 # one child result dropped
        bad.append(t)
    if bad:
        flags, _ = common.validate_traces(ctx, 'Visit', bad, what='binding demonstration: corrupted logs', diag=False)
        ctx.control('corrupted visitor logs are rejected by the acceptor', not any(flags),
                    '%d of %d corrupted logs accepted' % (sum(flags), len(bad)))
    ctx.exhaustive = True


def replay(case):
    c = case['case']
    i = pc.impl_parse(c['s'], c['ctx'], c['mode'], full=True)
    if not i['ok'] or i.get('nodelist') is None:
        print('no tree')
        return True
    tr = record(i['nodelist'])
    ctx = common.Ctx('C19', 'quick', 0)
    f, d = common.validate_traces(ctx, 'Visit', [tr])
    print(repr(c['s']), 'acceptor:', 'accepts' if f[0] else 'rejects %r' % d.get(0))
    return f[0]

# -*- coding: utf-8 -*-
"""C13 -- encoded text is inert, strictly parseable LaTeX, ASCII-only when asked.

spec/EncParse.tla composes the encoder model -- instantiated with the real entries of
the LaTeX-active ASCII characters in either built-in table ((D) extraction) -- with the
strict reference parser: TLC checks for every string over the active alphabet, each
protection scheme and both tables that the output parses strictly and that its tree has
no comment, environment or math node, and is pure ASCII.  Binding S->C: the real
encoder's output must equal the model's and the real strict parser's node kinds the
model's.  Every built-in character (both tables), alone and between active characters,
and control / combining / astral / unassigned code points per policy are encoded by the
real encoder, parsed by the real strict parser, and the trees are judged by TLC
(TraceTree kind "inert"; Outcome kind "strict").  ASCII-only and fail-iff-unmatched are
checked by TLC on the model instantiated with table chunks (EncRun) and replayed.
"""
from __future__ import annotations

from . import common, contexts, pstate, parsecommon as pc, c04, c04_extra, proj
from .common import Consumer, uncodes, codes, guarded

LEVEL = 'model_checking'

ACTIVE = ['\\', '~', '#', '$', '%', '&', '^', '_', '{', '}', '"', '<', '>', 'a', ' ', '\n']

MC = """---- MODULE MC_EncParse ----
EXTENDS EncParse
AlphaDef == << %(alpha)s >>
CfgsDef == << %(cfgs)s >>
St0Def == %(st0)s
%(ctxdefs)s
====
"""
CFG = """CONSTANTS
  Alphabet <- AlphaDef
  K = %(K)d
  Shard = %(shard)d
  Cfgs <- CfgsDef
  St0 <- St0Def
%(ctxconst)s
SPECIFICATION Spec
INVARIANT StrictlyParseable
INVARIANT InertTree
INVARIANT AsciiOut
INVARIANT Emit
CHECK_DEADLOCK FALSE
"""


def setup(tname):
    tab = c04_extra.table(tname)
    ent = [(ord(c), tab[ord(c)]) for c in ACTIVE if ord(c) in tab]
    cfgs = [dict(table=tname, scheme=s) for s in c04.SCHEMES]
    rule = c04.rule_tla(('dict', ent, ''))
    cf = ', '.join('[rules |-> << %s >>, scheme |-> "%s", policy |-> "keep", non_ascii_only |-> FALSE]' % (rule, c['scheme'])
                   for c in cfgs)
    # macro names occurring in the replacements (+ letters of the alphabet appended)
    atoms = [rep for _cp, rep in ent] + ['a', '{', '}']
    only = contexts.names_in_atoms('default', atoms + ['\\'], 4)
    st = pstate.make(ctx='default', tol=False)
    text = MC % dict(alpha=', '.join(str(ord(c)) for c in ACTIVE), cfgs=cf,
                     st0=pstate.tla_record(st).replace('AlphaDefault', 'P!AlphaDefault'),
                     ctxdefs=contexts.tla_defs('default', only=only))
    return text, cfgs


def kinds_of(nl):
    import pylatexenc.latexnodes.nodes as N
    out = []

    def walk(n):
        if n is None:
            return
        d = proj.proj_node(n)
        out.append(d['k'])
        nd = getattr(n, 'nodeargd', None)
        if nd is not None and getattr(nd, 'argnlist', None):
            for a in nd.argnlist:
                if a is None:
                    continue
                if isinstance(a, (N.LatexNodeList, list)):
                    for x in a:
                        walk(x)
                else:
                    walk(a)
        if not isinstance(n, (N.LatexCharsNode, N.LatexCommentNode)):
            for x in (getattr(n, 'nodelist', None) or []):
                walk(x)
    for n in nl:
        walk(n)
    return out


class InertConsumer(Consumer):
    def feed(self, rec):
        from pylatexenc.latexencode import UnicodeToLatexEncoder
        self.n += 1
        s = uncodes(rec['s'])
        c = self.payload['cfgs'][rec['ci'] - 1]
        case = dict(s=s, table=c['table'], scheme=c['scheme'])
        if sum(1 for ch in s if ch in '\\~#$%&^_{}') >= 2:
            self.nontrivial += 1
        self.sample(dict(case, out=uncodes(rec['out'])), every=4999)
        callers_modify_their_rule_lists()
        enc = UnicodeToLatexEncoder(conversion_rules=[c['table']], replacement_latex_protection=c['scheme'],
                                    unknown_char_warning=False)
        st, val = guarded(enc.unicode_to_latex, s)
        if st != 'ok':
            self.violation('encoder-outcome', case, detail=dict(status=st, exc=repr(val)), sig=dict(clause='encoder-outcome'))
            return
        if val != uncodes(rec['out']):
            self.violation('encoder-output-differs', case, detail=dict(model=uncodes(rec['out']), impl=val),
                           sig=dict(clause='encoder-output-differs'))
            return
        i = pc.impl_parse(val, 'default', 'strict', full=True)
        if not i['ok']:
            self.violation('not-strictly-parseable', dict(case, encoded=val), detail=dict(exc=i.get('exc'), what=i.get('what'), pos=i.get('pos')),
                           sig=dict(clause='not-strictly-parseable'))
            return
        k = kinds_of(i['nodelist'] or [])
        if any(x in ('comment', 'env', 'math') for x in k):
            self.violation('not-inert', dict(case, encoded=val), detail=dict(kinds=k), sig=dict(clause='not-inert'))
            return
        if k != rec['kinds']:
            self.add_drift(dict(case, encoded=val), detail=dict(model=rec['kinds'], impl=k))
        else:
            self.counters['same'] += 1


def replacement_spans(s, tname, scheme, encoded):
    """[start, end) of the replacement text of every input character that has a table entry, in the encoder's output
    (per-character rules: the output is the concatenation of the pieces; checked against the real output)"""
    import unicodedata
    tab = c04_extra.table(tname)
    spans, p = [], 0
    for ch in unicodedata.normalize('NFC', s):
        piece = c04_extra.port_encode(ch, tab, scheme, 'keep', False)
        if ord(ch) in tab:
            spans.append([p, p + len(piece)])
        p += len(piece)
    return spans if p == len(encoded) else []


_mutated = []


def callers_modify_their_rule_lists():
    """Once per process, before any encoder under test is built: two callers obtain the built-in rule lists and extend /
    prepend to THEIR lists (documented way of combining rules).  Encoders built afterwards from the rule-set names must
    not be affected."""
    if _mutated:
        return
    from pylatexenc.latexencode import (get_builtin_conversion_rules, UnicodeToLatexConversionRule, RULE_DICT,
                                        UnicodeToLatexEncoder)
    mine = get_builtin_conversion_rules('unicode-xml')
    mine += get_builtin_conversion_rules('defaults')
    mine2 = get_builtin_conversion_rules('defaults')
    mine2.insert(0, UnicodeToLatexConversionRule(RULE_DICT, {ord('{'): '{', ord('}'): '}', 0x0e18: 'X'},
                                                  replacement_latex_protection='none'))
    UnicodeToLatexEncoder(conversion_rules=mine, unknown_char_warning=False).unicode_to_latex('a{b}\u0259')
    UnicodeToLatexEncoder(conversion_rules=mine2, unknown_char_warning=False).unicode_to_latex('a{b}\u0259')
    _mutated.append(True)


def _probe_worker(args):
    """Real encoder + real strict parser on a batch of strings; returns traces for the TLC acceptors."""
    callers_modify_their_rule_lists()
    tname, scheme, policy, strings = args
    from pylatexenc.latexencode import UnicodeToLatexEncoder
    enc = UnicodeToLatexEncoder(conversion_rules=[tname], replacement_latex_protection=scheme,
                                unknown_char_policy=policy, unknown_char_warning=False)
    out = []
    for s in strings:
        st, val = guarded(enc.unicode_to_latex, s)
        case = dict(s=s, table=tname, scheme=scheme, policy=policy)
        if st != 'ok':
            out.append((case, 'encoder', dict(status=st, exc=repr(val))))
            continue
        if policy in ('replace', 'ignore', 'unihex') and any(ord(ch) > 127 for ch in val):
            out.append((case, 'non-ascii', dict(encoded=val)))
            continue
        i = pc.impl_parse(val, 'default', 'strict', full=True)
        from .c05 import outcome_trace
        otr = outcome_trace(val, i, kind='strict')
        if not i['ok']:
            otr['kind'] = 'tolerant'       # must be a tree
            otr['what'] = i.get('what')
            out.append((dict(case, encoded=val), 'outcome', otr))
            continue
        out.append((dict(case, encoded=val), 'tree', dict(kind='inert', s=codes(val), ns=i['v']['ns'],
                                                            spans=replacement_spans(s, tname, scheme, val))))
    return out


def run(ctx):
    quick = ctx.tier == 'quick'
    ctx.rule = ('TLC composes the encoder model (real table entries of the active characters) with the strict reference parser '
                'for every string of <= K characters over {\\ ~ # $ % & ^ _ { } " < > a space newline}, 5 schemes, 2 tables; '
                'real encoder output and real strict parse must agree; every built-in character alone and between active '
                'characters, and control/combining/astral/unassigned code points, are encoded, parsed and judged by the TLC '
                'acceptors. Non-trivial: >= 2 active characters in the string.')
    K = 3 if quick else 4
    for tname in ('defaults', 'unicode-xml'):
        text, cfgs = setup(tname)
        jobs = [dict(payload=dict(cfgs=cfgs), main='MC_EncParse', mc=text,
                     cfg=CFG % dict(K=K, shard=sh, ctxconst=contexts.cfg_constants('default').rstrip('\n')),
                     tlc_kw=dict(timeout=6000, xmx='3g')) for sh in range(0, len(ACTIVE) + 1)]
        m = common.run_shards(ctx, ('harness.c13', 'InertConsumer'), jobs, what='EncParse table %s, strings <= %d' % (tname, K))
        ctx.add_merged(m)
        ctx.log('composition %s: %d (string, scheme) cases, %s' % (tname, m['n'], {k: v for k, v in m['counters'].items() if k in ('same', 'drift')}))
    # every table character, alone and between active characters; odd code points per policy
    batches = []
    odd = ['\x00', '\x07', '\x1b', '\x7f', '́', 'é', '͸', '', '\U0001F600', '\U000E0001', '￾', '​']
    for tname in ('defaults', 'unicode-xml'):
        tab = c04_extra.table(tname)
        cps = sorted(tab)
        if quick:
            cps = cps[::3]
        strings = []
        for cp in cps:
            ch = chr(cp)
            strings += [ch, '%' + ch + '{', '\\' + ch + '$', ch + 'a', '~' + ch + '}']
        for scheme in (c04.SCHEMES if not quick else ['braces', 'none', 'braces-after-macro']):
            for k in range(0, len(strings), 800):
                batches.append((tname, scheme, 'keep', strings[k:k + 800]))
        for policy in ('replace', 'ignore', 'unihex', 'keep'):
            batches.append((tname, 'braces', policy, odd + [o + '%' for o in odd] + ['{' + o for o in odd]))
    results = common.pool_map(_probe_worker, batches)
    tree_items, out_items, n = [], [], 0
    for res in results:
        for case, kind, tr in res:
            n += 1
            if kind == 'tree':
                tree_items.append((case, tr))
            elif kind == 'outcome':
                out_items.append((case, tr))
            else:
                ctx.violation(kind, case, detail=tr, sig=dict(clause=kind))
    ctx.evaluations += n
    for items, module in ((tree_items, 'TraceTree'), (out_items, 'Outcome')):
        if not items:
            continue
        flags, diags = common.validate_traces(ctx, module, [it[1] for it in items], what='C->S %s acceptor (table characters)' % module)
        ctx.traces_validated += len(items)
        for idx, (case, tr) in enumerate(items):
            if not flags[idx]:
                d = diags.get(idx, {})
                comb = [ord(ch) for ch in case['s'] if 0x300 <= ord(ch) <= 0x36f]
                ctx.violation('acceptor-rejects', case, detail=dict(d, kind=tr['kind'], outcome=tr.get('outcome'), what=tr.get('what')),
                              sig=dict(clause=('not-strictly-parseable' if module == 'Outcome' else 'not-inert'), table=case['table'],
                                       offending_cp=(comb[0] if comb else None), what=tr.get('what'),
                                       failed=','.join(d.get('failed_clauses', [])) or '?'))
    ctx.log('table characters: %d encoded strings parsed and judged (%d trees, %d non-tree outcomes)' % (n, len(tree_items), len(out_items)))
    c04_extra.run_builtin_tables(ctx)
    c04_extra.run_codepoint_windows(ctx)
    c04_extra.run_helper_histories_c13(ctx)
    ctx.exhaustive = True
    ctx.assumptions += ['"inert" = the strict parse of the output contains no comment, environment or math node; '
                        'arguments parsed in math mode (\\ensuremath{<}) are not math nodes']


def replay(case):
    from pylatexenc.latexencode import UnicodeToLatexEncoder
    c = case['case']
    if 'history' in c:
        from pylatexenc import latexencode
        if hasattr(latexencode, '_u2l_obj_cache'):
            latexencode._u2l_obj_cache.clear()
        tab = c04_extra.table('defaults')
        ok = True
        for k, o in enumerate(c['history'][:c.get('step', len(c['history']))]):
            opt = dict(nao=o['nao'], scheme=o['scheme'], policy=o['policy'])
            for s in c04_extra.C13_HELPER_STRINGS:
                status, val = c04_extra.helper_call(opt, s)
                exp = c04_extra.port_encode(s, tab, opt['scheme'], opt['policy'], opt['nao'])
                bad = (opt['policy'] == 'fail' and (exp is None) != (status == 'ValueError')) or \
                      (opt['policy'] in ('replace', 'ignore', 'unihex') and status == 'ok' and any(ord(ch) > 127 for ch in val))
                print('call %d' % (k + 1), opt, repr(s), '->', status, repr(val), '  <-- violates C13' if bad else '')
                ok = ok and not bad
        return ok
    enc = UnicodeToLatexEncoder(conversion_rules=[c['table']], replacement_latex_protection=c['scheme'],
                                unknown_char_policy=c.get('policy', 'keep'), unknown_char_warning=False)
    st, val = guarded(enc.unicode_to_latex, c['s'])
    print(repr(c['s']), '->', st, repr(val))
    if st != 'ok':
        return False
    i = pc.impl_parse(val, 'default', 'strict', full=True)
    print('strict parse ok:', i['ok'], i.get('what'))
    if not i['ok']:
        return False
    k = kinds_of(i['nodelist'] or [])
    print('kinds', k)
    return not any(x in ('comment', 'env', 'math') for x in k)

------------------------------- MODULE EncHelper -------------------------------
(* C04, module-level helper latexencode.unicode_to_latex(): encoder objects are    *)
(* cached per option set.  State: the set of cache keys present.  A call must       *)
(* behave like a freshly built encoder with exactly the options it was given,       *)
(* whatever the history (Variant "as_implemented_key_missing_field": the key omits  *)
(* one option -- a sensitivity control).                                             *)
EXTENDS Integers, Sequences, FiniteSets, TLC, Json

CONSTANTS Opts,      \* set of option records [nao, scheme, policy]
          MaxLen, Variant, Emit_
VARIABLES cache, hist, served
vars == <<cache, hist, served>>

Key(o) == IF Variant = "intended" THEN o ELSE [nao |-> o.nao, scheme |-> o.scheme]
Init == cache = {} /\ hist = <<>> /\ served = <<>>
Call(o) == /\ Len(hist) < MaxLen
           /\ LET hit == { c \in cache : Key(c) = Key(o) } IN
              /\ served' = Append(served, IF hit = {} THEN o ELSE CHOOSE c \in hit : TRUE)   \* options of the object that answers
              /\ cache' = IF hit = {} THEN cache \cup {o} ELSE cache
           /\ hist' = Append(hist, o)
Next == \E o \in Opts : Call(o)
Spec == Init /\ [][Next]_vars
ServedByOwnOptions == \A i \in 1..Len(hist) : served[i] = hist[i]
Emit == Emit_ => PrintT(ToJson([hist |-> hist]))
=============================================================================

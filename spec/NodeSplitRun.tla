------------------------------ MODULE NodeSplitRun ------------------------------
(* Model-checking / export harness for NodeSplit.tla: every abstract list of at most *)
(* MaxItems items (no two adjacent character items: the parser would merge them) x    *)
(* separator kinds x max_split x keep_empty x skip_none; TLC checks the Tier-A        *)
(* clauses of C18 and prints every behaviour for replay.                              *)
EXTENDS NodeSplit, Json

CONSTANTS Words,        \* set of character-item texts
          MaxItems, Seps, MaxSplits, Op, FirstItems, Policies, VKeyVal

Templates == { [k |-> "chars", txt |-> w] : w \in Words } \cup
             { [k |-> "opaque", txt |-> <<>>], [k |-> "comment", txt |-> <<>>], [k |-> "none", txt |-> <<>>] }
(* two character items are always separated by a real construct (the parser would merge them otherwise; None      *)
(* placeholders occupy no source text)                                                                           *)
OkList(l) == \A i \in 1..Len(l), j \in 1..Len(l) :
                (i < j /\ l[i].k = "chars" /\ l[j].k = "chars") => \E m \in (i + 1)..(j - 1) : l[m].k \in {"opaque", "comment"}
Lists == { l \in UNION { [1..n -> Templates] : n \in 1..MaxItems } : OkList(l) /\ l[1] \in FirstItems }

VARIABLES items, sep, maxsplit, keepempty, skipnone, res, done
vars == <<items, sep, maxsplit, keepempty, skipnone, res, done>>
Nodes == Layout(items, 0)
Src == Source(items)

Init == /\ items \in Lists /\ sep \in Seps /\ maxsplit \in MaxSplits /\ keepempty \in BOOLEAN /\ skipnone \in BOOLEAN
        /\ res = <<>> /\ done = FALSE
Next == /\ ~done /\ done' = TRUE /\ UNCHANGED <<items, sep, maxsplit, keepempty, skipnone>>
        /\ res' = IF Op = "keyval" THEN [p \in Policies |-> KeyVal(Nodes, p, VKeyVal)]
                  ELSE IF Op = "chars" THEN SplitAtChars(Nodes, sep, maxsplit, keepempty, skipnone)
                  ELSE SplitAtNode(Nodes, sep.set, keepempty, maxsplit, skipnone)     \* keepempty plays keep_separators
Spec == Init /\ [][Next]_vars

(* ---- C18 clauses for split_at_chars ---- *)
JoinReproducesSource == (done /\ Op = "chars" /\ keepempty /\ sep.t = "str") => Reproduces(Nodes, res, sep.lit)
PositionsCorrect == (done /\ Op = "chars") => NodesPlaced(Src, res)
KeepEmptyOnlyDropsEmpty ==
    (done /\ Op = "chars" /\ ~keepempty /\ maxsplit = NoMax) =>
        LET full == NonEmpty(SplitAtChars(Nodes, sep, NoMax, TRUE, skipnone)) IN
        /\ Len(res) = Len(full) /\ \A i \in 1..Len(res) : res[i].nodes = full[i].nodes
AtMostMaxSplits == (done /\ Op = "chars" /\ maxsplit # NoMax) => Len(res) <= maxsplit + 1
(* ---- C18 clauses for split_at_node ---- *)
RECURSIVE ConcatLists(_)
ConcatLists(ls) == IF ls = <<>> THEN <<>> ELSE Head(ls) \o ConcatLists(Tail(ls))
Kept == SelectSeq(Nodes, LAMBDA n : ~(skipnone /\ n.k = "none"))
NodePartition == (done /\ Op = "node") =>
    /\ (keepempty => ConcatLists(res) = Kept)
    /\ (~keepempty => LET c == ConcatLists(res) IN
                      \* order-preserving: c is Kept with some separator nodes removed
                      /\ Len(c) + (Len(res) - 1) = Len(Kept)
                      /\ \A i \in 1..Len(c) : \E j \in 1..Len(Kept) : Kept[j] = c[i])
    /\ (maxsplit # NoMax => Len(res) - 1 <= maxsplit)
(* ---- C18 clauses for parse_keyval_content: the statement, written independently -------------- *)
(* split at commas (empty parts dropped), then at the FIRST equals sign of each part               *)
KVParts == NonEmpty(SplitAtChars(Nodes, [t |-> "str", lit |-> <<44>>], NoMax, TRUE, TRUE))
KVPairs == [i \in 1..Len(KVParts) |->
              LET eq == SplitAtChars(KVParts[i].nodes, [t |-> "str", lit |-> <<61>>], 1, TRUE, TRUE)
              IN << ContentAsChars(eq[1].nodes), ValueOf(eq) >>]
FirstOcc(key) == CHOOSE i \in 1..Len(KVPairs) : KVPairs[i][1] = key /\ \A j \in 1..(i - 1) : KVPairs[j][1] # key
LastOcc(key) == CHOOSE i \in 1..Len(KVPairs) : KVPairs[i][1] = key /\ \A j \in (i + 1)..Len(KVPairs) : KVPairs[j][1] # key
RECURSIVE AllVals(_, _)
AllVals(key, i) == IF i > Len(KVPairs) THEN <<>> ELSE (IF KVPairs[i][1] = key THEN KVPairs[i][2] ELSE <<>>) \o AllVals(key, i + 1)
Repeated == \E i, j \in 1..Len(KVPairs) : i # j /\ KVPairs[i][1] = KVPairs[j][1]
KeyValAgrees ==
    (done /\ Op = "keyval") =>
        \A p \in Policies :
            IF p = "error" /\ Repeated THEN res[p].err = "ValueError"
            ELSE /\ res[p].err = ""
                 /\ { res[p].kv[i][1] : i \in 1..Len(res[p].kv) } = { KVPairs[i][1] : i \in 1..Len(KVPairs) }
                 /\ \A i \in 1..Len(res[p].kv) :
                        LET key == res[p].kv[i][1] IN
                        res[p].kv[i][2] = (IF p = "first" THEN KVPairs[FirstOcc(key)][2]
                                          ELSE IF p = "last" THEN KVPairs[LastOcc(key)][2]
                                          ELSE IF p = "concatenate" THEN AllVals(key, 1)
                                          ELSE KVPairs[FirstOcc(key)][2])
Emit == done => PrintT(ToJson([items |-> items, sep |-> sep, maxsplit |-> maxsplit, keepempty |-> keepempty,
                               skipnone |-> skipnone, res |-> res]))
=============================================================================

-------------------------------- MODULE PState --------------------------------
(* C17 -- a derived parsing state behaves exactly like a freshly built one.     *)
(*                                                                              *)
(* Tier B: ParsingState objects as  [f |-> public fields, tb |-> cached tables] *)
(* and sub_context(changes) as in latexnodes/_parsingstate.py: keys whose     *)
(* value is unchanged are filtered out (_safe_eq), the remaining ones replace   *)
(* the fields, set_fields() drops a math delimiter given without math mode,     *)
(* and each of the three _finalize_state_* groups either recomputes its tables  *)
(* or inherits the parent's, depending on which keys changed.                   *)
(* VSub = "as_implemented": the expected-closing-delimiter entry is inherited   *)
(* whenever in_math_mode / math_mode_delimiter are unchanged -- also when the   *)
(* delimiter lists it was derived from have changed (pinned behaviour).         *)
(*                                                                              *)
(* Tier A: Cached == tables = Fresh(fields) -- together with TokenAt being a    *)
(* function of (string, position, fields, tables) this is "tokenizes every      *)
(* input like a state constructed directly with the same field values".        *)
EXTENDS Tokenizer, Json

CONSTANTS VSub,
          Root,          \* the root state's fields (record)
          Changes,       \* set of change records (partial field assignments)
          MaxDepth,
          Probes         \* sequence of probe strings tokenized under the final cached tables

VARIABLES cur, depth, hist
vars == <<cur, depth, hist>>

Mk(f) == [f |-> f, tb |-> Fresh(f)]

SubContext(o, ch) ==
    LET f == o.f
        eff == { k \in DOMAIN ch : ch[k] # f[k] }                   \* kwargs2
        f1 == [k \in DOMAIN f |-> IF k \in eff THEN ch[k] ELSE f[k]]
        f2 == IF ~f1.in_math /\ f1.mdelim # <<>> THEN [f1 EXCEPT !.mdelim = <<>>] ELSE f1
        fr == Fresh(f2)
        grp_new == "groups" \in eff
        mth_new == "inline" \in eff \/ "display" \in eff
        exp_new == "in_math" \in eff \/ "mdelim" \in eff \/ (VSub = "intended" /\ mth_new)
        pairs == IF mth_new THEN fr.pairs ELSE o.tb.pairs
        tb == [ pairs  |-> pairs,
                start  |-> IF mth_new THEN fr.start ELSE o.tb.start,
                all    |-> IF mth_new THEN fr.all ELSE o.tb.all,
                \* recomputed from THIS object's by-open table (possibly inherited)
                expect |-> IF exp_new THEN ExpectOf(pairs, f2.in_math, f2.mdelim) ELSE o.tb.expect,
                gopen  |-> IF grp_new THEN fr.gopen ELSE o.tb.gopen,
                gclose |-> IF grp_new THEN fr.gclose ELSE o.tb.gclose ]
    IN [f |-> f2, tb |-> tb]

Init == cur = Mk(Root) /\ depth = 0 /\ hist = <<>>
Sub(ch) == /\ depth < MaxDepth
           /\ cur' = SubContext(cur, ch) /\ depth' = depth + 1 /\ hist' = Append(hist, ch)
Next == \E ch \in Changes : Sub(ch)
Spec == Init /\ [][Next]_vars

Cached == cur.tb = Fresh(cur.f)
(* the same statement on observable behaviour, for the probe strings *)
RECURSIVE Stream(_, _, _, _, _)
Stream(s, p, f, tb, fuel) ==
    IF fuel = 0 THEN <<>>
    ELSE LET t == TokenAt(s, p, f, tb) IN
         IF IsTok(t) THEN <<t>> \o Stream(s, t.pos_end, f, tb, fuel - 1) ELSE <<t>>
ProbeStreams(o) == [i \in DOMAIN Probes |-> Stream(Probes[i], 0, o.f, o.tb, Len(Probes[i]) + 1)]
BehavesLikeFresh == ProbeStreams(cur) = ProbeStreams(Mk(cur.f))

View == <<cur, depth>>
ViewLast == <<cur, depth, IF hist = <<>> THEN <<>> ELSE <<hist[Len(hist)]>> >>
PubFields(f) == [in_math |-> f.in_math, mdelim |-> f.mdelim, inline |-> f.inline, display |-> f.display,
                 groups |-> f.groups, en_math |-> f.en_math, en_groups |-> f.en_groups, esc |-> f.esc,
                 cmt |-> f.cmt, forbidden |-> f.forbidden]
Emit == PrintT(ToJson([hist |-> hist, fields |-> PubFields(cur.f), probes |-> ProbeStreams(cur)]))
=============================================================================

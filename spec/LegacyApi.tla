------------------------------- MODULE LegacyApi -------------------------------
(* C16 -- the pylatexenc-2 compatible entry points agree with the new parsers.      *)
(* Each legacy call is defined here as the equivalent invocation of an operator of   *)
(* the reference parser from a start position, together with the translation of its  *)
(* result to the legacy (node, pos, len) convention or the documented empty result:  *)
(*   get_token(pos)                        TokenAt                                   *)
(*   get_latex_expression(pos, strict_braces)   ParseExpr (full node list off);      *)
(*        a closing brace where an expression is expected gives the empty result     *)
(*        unless strict_braces; macro/specials nodes come without arguments          *)
(*   get_latex_braced_group(pos, brace_type)    ParseGroup(pair, required, pre-space *)
(*        allowed)                                                                   *)
(*   get_latex_maybe_optional_arg(pos)          ParseGroup([ ], optional, pre-space  *)
(*        allowed) -> None or the group                                              *)
(*   get_latex_nodes(pos, stop_upon_closing_brace | _end_environment |               *)
(*        _closing_mathmode)                    Collect with the stop condition; the *)
(*        closing delimiter's pair is added to the group delimiters; without a stop  *)
(*        condition the end of the input is a normal end                             *)
(* Results: [r |-> "node", v, pos, len] / [r |-> "none"] / [r |-> "raise", what, at]  *)
EXTENDS Parser, Json

CONSTANTS Atoms, K, Shard, St0, Calls, Tol

RECURSIVE Flat(_)
Flat(sq) == IF sq = <<>> THEN <<>> ELSE Atoms[Head(sq)] \o Flat(Tail(sq))

St == [St0 EXCEPT !.tol = Tol]
Raise(e) == [r |-> "raise", what |-> e.what, at |-> e.pos]
NodeRes(v, p, l) == [r |-> "node", v |-> v, pos |-> p, len |-> l]

GetToken(s, p) == LET t == TokP(s, p, St) IN
                  IF t.t = "EOS" THEN [r |-> "raise", what |-> "end_of_stream", at |-> -1]
                  ELSE IF t.t = "ERR" THEN [r |-> "raise", what |-> t.what, at |-> t.pos]
                  ELSE [r |-> "token", v |-> t]

(* the first token that is not a comment, from p *)
RECURSIVE FirstReal(_, _, _)
FirstReal(s, p, fuel) == LET t == TokP(s, p, St) IN
                         IF fuel > 0 /\ t.t = "comment" THEN FirstReal(s, t.pos_end, fuel - 1) ELSE t
GetExpression(s, p, strictbraces) ==
    LET e == ParseExpr(s, p, St, TRUE, NoneV, Fuel(s))
        dummy == NodeV(Node("chars", p, p, St))
        \* only a closing brace met by THIS expression parser is forgiven (the marker set by the expression parser does not
        \* survive the error handling of nested constructs: '{\\m}' raises, as the new expression parser does)
        own == FirstReal(s, p, Fuel(s)).t = "brace_close"
    IN IF ~Tol /\ ~e.ok /\ e.what = "expr_closing_group" /\ ~strictbraces /\ own THEN NodeRes(dummy, p, 0)
       ELSE LET r == PC(e, St) IN       \* (in tolerant mode parse_content has already recovered the error)
            IF ~r.ok THEN Raise(r)
            ELSE IF r.v.vk = "none" THEN (IF Tol \/ ~strictbraces THEN NodeRes(dummy, p, 0) ELSE [r |-> "none"])
            ELSE LET n == r.v.ns[1] IN NodeRes(r.v, n.pos, n.end - n.pos)

GetBracedGroup(s, p, a, b) ==
    LET e == ParseGroup(s, p, St, <<a, b>>, FALSE, TRUE, Fuel(s))
        r == PC(e, St)
    IN IF Tol /\ ~e.ok /\ e.what = "expected_opening_delimiter"
       THEN NodeRes(ListV(<<>>), e.pos, 0)          \* recovered: an empty node list located at the offending token
       ELSE IF ~r.ok THEN Raise(r)
       ELSE IF r.v.vk = "none" THEN [r |-> "nonepos", pos |-> p, len |-> 0]
       ELSE NodeRes(r.v, r.v.ns[1].pos, r.v.ns[1].end - r.v.ns[1].pos)

GetMaybeOptionalArg(s, p) ==
    LET r == PC(ParseGroup(s, p, St, <<91, 93>>, TRUE, TRUE, Fuel(s)), St) IN
    IF ~r.ok THEN Raise(r)
    ELSE IF r.v.vk # "node" THEN [r |-> "none"]
    ELSE NodeRes(r.v, r.v.ns[1].pos, r.v.ns[1].end - r.v.ns[1].pos)

OpenOf(c) == IF c = 125 THEN 123 ELSE IF c = 93 THEN 91 ELSE IF c = 41 THEN 40 ELSE 60
GetNodes(s, p, stopkind, stoparg) ==
    LET st1 == IF stopkind = "brace" THEN WithGroup(St, OpenOf(stoparg[1]), stoparg[1]) ELSE St
        stop == IF stopkind = "none" THEN NoStop
                ELSE IF stopkind = "brace" THEN [k |-> "brace", arg |-> stoparg, tok |-> ""]
                ELSE IF stopkind = "env" THEN [k |-> "env", arg |-> stoparg, tok |-> ""]
                ELSE [k |-> "mathany", arg |-> stoparg, tok |-> ""]
        r == PC(Collect(s, p, p, st1, stop, SameChild, <<>>, <<>>, Fuel(s)), St)
    IN IF ~r.ok THEN Raise(r)
       ELSE IF r.v.vk = "none" THEN [r |-> "none"]
       ELSE LET first == IF r.v.ns = <<>> THEN p ELSE r.v.ns[1].pos IN NodeRes(r.v, first, r.pos - first)

Call(s, p, c) ==
    CASE c.f = "token" -> GetToken(s, p)
      [] c.f = "expression" -> GetExpression(s, p, c.strict)
      [] c.f = "braced" -> GetBracedGroup(s, p, c.a, c.b)
      [] c.f = "optarg" -> GetMaybeOptionalArg(s, p)
      [] c.f = "nodes" -> GetNodes(s, p, c.stopkind, c.stoparg)

VARIABLES s, p, ci, res, done
vars == <<s, p, ci, res, done>>
Init == /\ IF Shard = 0 THEN s = <<>>
           ELSE \E n \in 0..(K - 1) : \E sq \in [1..n -> 1..Len(Atoms)] : s = Atoms[Shard] \o Flat(sq)
        /\ p \in 0..Len(s) /\ ci \in DOMAIN Calls /\ res = <<>> /\ done = FALSE
Next == ~done /\ done' = TRUE /\ UNCHANGED <<s, p, ci>> /\ res' = Call(s, p, Calls[ci])
Spec == Init /\ [][Next]_vars
(* sanity of the translation: a returned node starts at the reported position and has the reported length *)
Consistent == (done /\ res.r = "node" /\ res.v.vk = "node") =>
                  (res.pos = res.v.ns[1].pos /\ res.len = res.v.ns[1].end - res.v.ns[1].pos /\ res.pos >= p)
Emit == done => PrintT(ToJson([s |-> s, p |-> p, ci |-> ci, res |-> res]))
=============================================================================

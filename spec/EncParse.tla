------------------------------- MODULE EncParse -------------------------------
(* C13 -- encoded text is inert, strictly parseable LaTeX.  Composition of the     *)
(* encoder model (instantiated with the real table entries of the LaTeX-active     *)
(* ASCII characters, extracted at check time) with the strict reference parser:    *)
(* for every string over the active alphabet the encoder output parses and its      *)
(* tree contains no comment, environment or math node.                              *)
EXTENDS Encoder, TreeProps, Json

CONSTANTS Alphabet, K, Shard, Cfgs, MacroSig, EnvSig, SpecSig, HasUnknownMacro, HasUnknownEnv, Sticky, St0

P == INSTANCE Parser WITH VTok <- "intended", VMarker <- "intended", VVerb <- "intended", VPosNone <- "intended"

VARIABLES s, ci, out, parsed, done
vars == <<s, ci, out, parsed, done>>
Init == /\ IF Shard = 0 THEN s = <<>>
           ELSE \E n \in 0..(K - 1) : \E sq \in [1..n -> 1..Len(Alphabet)] :
                  s = <<Alphabet[Shard]>> \o [i \in 1..n |-> Alphabet[sq[i]]]
        /\ ci \in DOMAIN Cfgs /\ out = <<>> /\ parsed = <<>> /\ done = FALSE
Next == /\ ~done /\ done' = TRUE /\ UNCHANGED <<s, ci>>
        /\ LET r == Enc(Cfgs[ci], s, 1, <<>>, <<>>) IN
           /\ out' = r.out
           /\ parsed' = P!ParseDoc(r.out, St0)
Spec == Init /\ [][Next]_vars

StrictlyParseable == done => parsed.ok
InertTree == (done /\ parsed.ok) => Inert(parsed.v.ns)
AsciiOut == done => \A j \in DOMAIN out : out[j] < 128
(* node kinds in pre-order, for the comparison with the real parser *)
RECURSIVE KindsSeq(_, _)
KindsOf(n) == <<n.k>> \o KindsSeq(Kids(n), 1)
KindsSeq(ns, i) == IF i > Len(ns) THEN <<>> ELSE KindsOf(ns[i]) \o KindsSeq(ns, i + 1)
Emit == done => PrintT(ToJson([s |-> s, ci |-> ci, out |-> out, ok |-> parsed.ok,
                               kinds |-> IF parsed.ok THEN KindsSeq(parsed.v.ns, 1) ELSE <<>>]))
=============================================================================

-------------------------------- MODULE Filters --------------------------------
(* C12 Tier A acceptor: latex2text content filters.  A trace is                     *)
(*   [out, keep_comments, math_mode, comments, formulas, discarded]                 *)
(* out        the text latex_to_text returned (sequence of code points)             *)
(* comments   the marker words of the comments the document was written with        *)
(* formulas   [markers, src, open, close] per formula / math environment: its       *)
(*            marker words, its exact source slice, its delimiters                   *)
(* discarded  marker words written inside constructs declared as discarded          *)
(* All of these come from the document writer, not from the parser under test.      *)
EXTENDS Integers, Sequences, TLC, Json, IOUtils

Traces == JsonDeserialize(IOEnv.TRACE_FILE)
Diag == "DIAG" \in DOMAIN IOEnv /\ IOEnv.DIAG = "1"
VARIABLES tid, l
vars == <<tid, l>>
Tr == Traces[tid]

OccursAt(x, w, i) == i + Len(w) - 1 <= Len(x) /\ \A k \in 1..Len(w) : x[i + k - 1] = w[k]
Contains(x, w) == w = <<>> \/ \E i \in 1..Len(x) : OccursAt(x, w, i)
(* open ... marker ... close, in this order *)
Delimited(x, o, m, c) == \E i \in 1..Len(x) : /\ OccursAt(x, o, i)
                                              /\ \E j \in (i + Len(o))..Len(x) : /\ OccursAt(x, m, j)
                                                                                 /\ \E k \in (j + Len(m))..Len(x) : OccursAt(x, c, k)
All(sq, P(_)) == \A i \in 1..Len(sq) : P(sq[i])

Clauses ==
    [ CommentsHidden |-> ~Tr.keep_comments => \A i \in 1..Len(Tr.comments) : ~Contains(Tr.out, Tr.comments[i]),
      CommentsKept |-> Tr.keep_comments => \A i \in 1..Len(Tr.comments) : Contains(Tr.out, <<37>> \o Tr.comments[i]),
      MathRemoved |-> Tr.math_mode = "remove" =>
                         \A i \in 1..Len(Tr.formulas) : \A j \in 1..Len(Tr.formulas[i].markers) :
                              ~Contains(Tr.out, Tr.formulas[i].markers[j]),
      MathVerbatim |-> Tr.math_mode = "verbatim" => \A i \in 1..Len(Tr.formulas) : Contains(Tr.out, Tr.formulas[i].src),
      MathDelimiters |-> Tr.math_mode = "with-delimiters" =>
                         \A i \in 1..Len(Tr.formulas) : \A j \in 1..Len(Tr.formulas[i].markers) :
                              Delimited(Tr.out, Tr.formulas[i].open, Tr.formulas[i].markers[j], Tr.formulas[i].close),
      Discarded |-> \A i \in 1..Len(Tr.discarded) : ~Contains(Tr.out, Tr.discarded[i]) ]
Holds == \A f \in DOMAIN Clauses : Clauses[f]

Init == tid \in 1..Len(Traces) /\ l = 1
Step == l = 1 /\ Holds /\ l' = 2 /\ UNCHANGED tid
Spec == Init /\ [][Step]_vars
Accept == l = 2 => PrintT(<<"ACC", tid>>)
Progress == Diag => PrintT(<<"AT", tid, l>>)
DiagClauses == (Diag /\ l = 1) => PrintT(<<"CL", tid, l, { f \in DOMAIN Clauses : ~Clauses[f] }>>)
=============================================================================

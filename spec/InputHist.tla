------------------------------- MODULE InputHist -------------------------------
(* C15 over histories: one converter object, reconfigured and used repeatedly.     *)
(*   SetDir(b, strict)   set_tex_input_directory(b, strict_input=strict)            *)
(*   Read(r)             read_input_file(r)  (also reached through \input{r})       *)
(* The documented meaning: every read is resolved under the configuration in force  *)
(* AT THAT MOMENT; nothing a previous read or a previous configuration did can make *)
(* a strict read return a file outside the directory.  Variant                      *)
(* "cache_ignores_strict" is a converter that remembers file contents by name and    *)
(* does not forget them when only the strict flag changes (sensitivity control).     *)
EXTENDS InputFile

CONSTANTS HLayout,      \* the (fixed, rich) layout the histories run in
          HReqs,        \* set of requests (records [abs, comps])
          HBases,       \* set of base names
          MaxLen, HVariant

VARIABLES hbase, hstrict, hist, memo
hvars == <<hbase, hstrict, hist, memo>>

HFS == FS(HLayout)
(* non-strict resolution: the containment tests are skipped *)
ResolveLax(fs, b, r) ==
    LET fnfull == RealPath(fs, Joined(b, r))
        f1 == IF ~Exists(fs, fnfull) /\ Exists(fs, WithExt(fnfull, ".tex")) THEN WithExt(fnfull, ".tex") ELSE fnfull
        f2 == IF ~Exists(fs, f1) /\ Exists(fs, WithExt(f1, ".latex")) THEN WithExt(f1, ".latex") ELSE f1
    IN IF IsFile(fs, f2) THEN RealPath(fs, f2) ELSE NoFile
Answer(b, st, r) == IF st THEN Resolve(HFS, b, r) ELSE ResolveLax(HFS, b, r)

HInit == /\ hbase \in HBases /\ hstrict \in BOOLEAN /\ hist = <<>> /\ memo = {}
         /\ layout = HLayout /\ base = "dir" /\ req = [abs |-> FALSE, comps |-> <<"in">>] /\ result = <<"UNUSED">> /\ done = TRUE
SetDir(b, st) == /\ Len(hist) < MaxLen /\ (b # hbase \/ st # hstrict)
                 /\ hbase' = b /\ hstrict' = st
                 /\ memo' = IF HVariant = "cache_ignores_strict" /\ b = hbase THEN memo ELSE {}
                 /\ hist' = Append(hist, [op |-> "set", base |-> b, strict |-> st, req |-> [abs |-> FALSE, comps |-> <<>>], res |-> NoFile])
                 /\ UNCHANGED vars
Read(r) == /\ Len(hist) < MaxLen
           /\ LET hits == { m \in memo : m[1] = r }
                  res == IF HVariant = "cache_ignores_strict" /\ hits # {} THEN (CHOOSE m \in hits : TRUE)[2]
                         ELSE Answer(hbase, hstrict, r)
              IN /\ hist' = Append(hist, [op |-> "read", base |-> hbase, strict |-> hstrict, req |-> r, res |-> res])
                 /\ memo' = IF HVariant = "cache_ignores_strict" /\ res # NoFile THEN memo \cup {<<r, res>>} ELSE memo
           /\ UNCHANGED <<hbase, hstrict>> /\ UNCHANGED vars
HNext == (\E b \in HBases, st \in BOOLEAN : SetDir(b, st)) \/ (\E r \in HReqs : Read(r))
HSpec == HInit /\ [][HNext]_<<vars, hvars>>

(* Tier A: a read made while strict mode is in force never returns an outside file, whatever came before *)
StrictReadsSafe == \A i \in 1..Len(hist) :
                      (hist[i].op = "read" /\ hist[i].strict) => Safe(HFS, hist[i].base, hist[i].res)
(* and every read answers as a fresh converter with the same configuration would *)
HistoryIndependent == \A i \in 1..Len(hist) :
                      hist[i].op = "read" => hist[i].res = Answer(hist[i].base, hist[i].strict, hist[i].req)
HEmit == Len(hist) = MaxLen => PrintT(ToJson([init |-> [base |-> hist[1].base, strict |-> hist[1].strict], hist |-> hist]))
=============================================================================

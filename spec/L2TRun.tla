-------------------------------- MODULE L2TRun --------------------------------
(* Export harness around L2T.tla: every strictly parseable string of at most K     *)
(* atoms is rendered under every whitespace policy and option set; TLC also checks  *)
(* the compositionality consequence stated in C03 on pairs of self-contained        *)
(* blocks.                                                                          *)
EXTENDS L2T, Json

CONSTANTS Atoms, K, Shard, St0, Pols, OptSets, Blocks

RECURSIVE Flat(_)
Flat(sq) == IF sq = <<>> THEN <<>> ELSE Atoms[Head(sq)] \o Flat(Tail(sq))

VARIABLES s, out, done
vars == <<s, out, done>>

Text(x, p, i) == LET r == ParseDoc(x, St0) IN IF r.ok THEN << Render(x, r.v.ns, p, OptSets[i]) >> ELSE <<>>

Init == /\ IF Shard = 0 THEN s = <<>>
           ELSE IF Shard = -1 THEN \E a \in DOMAIN Blocks, b \in DOMAIN Blocks, j \in {1, 2} :
                                      s = Blocks[a] \o (IF j = 1 THEN <<10, 10>> ELSE <<32>>) \o Blocks[b]
           ELSE \E n \in 0..(K - 1) : \E sq \in [1..n -> 1..Len(Atoms)] : s = Atoms[Shard] \o Flat(sq)
        /\ out = <<>> /\ done = FALSE
Next == /\ ~done /\ done' = TRUE /\ UNCHANGED s
        /\ LET r == ParseDoc(s, St0) IN
           out' = IF r.ok THEN << [p \in Pols |-> [i \in DOMAIN OptSets |-> Render(s, r.v.ns, p, OptSets[i])]] >> ELSE <<>>
Spec == Init /\ [][Next]_vars

(* C03, second sentence: converting two self-contained blocks joined by a paragraph break or a   *)
(* space equals joining their separate conversions (checked for the block pairs of Shard = -1)   *)
Compositional ==
    (Shard = -1 /\ done) =>
        \A a \in DOMAIN Blocks, b \in DOMAIN Blocks, j \in {1, 2} :
            LET sep == IF j = 1 THEN <<10, 10>> ELSE <<32>>
            IN (s = Blocks[a] \o sep \o Blocks[b]) =>
                 \A p \in Pols, i \in DOMAIN OptSets :
                     (j = 1 \/ Policy(p).lc) =>      \* a single space between blocks survives iff whitespace between constructs is kept
                     (LET ta == Text(Blocks[a], p, i) tb == Text(Blocks[b], p, i) tj == Text(s, p, i)
                      IN (ta # <<>> /\ tb # <<>>) => (tj # <<>> /\ tj[1] = ta[1] \o sep \o tb[1]))

Emit == (done /\ out # <<>>) =>
          PrintT(ToJson([s |-> s, outs |-> [p \in Pols |-> out[1][p]]]))
=============================================================================

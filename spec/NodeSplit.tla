------------------------------- MODULE NodeSplit -------------------------------
(* C18 -- node-list splitting and key-value parsing are order-preserving           *)
(* partitions.  Tier B = the scan machines of LatexNodeList.split_at_chars(),        *)
(* split_at_node() and parse_keyval_content() (pending nodes, emitted parts, split   *)
(* counter); Tier A = the clauses the property states, checked by TLC on every       *)
(* abstract list.                                                                    *)
(*                                                                                   *)
(* An abstract node list is a sequence of items                                      *)
(*   [k |-> "chars", txt]   text over {a , =} (separators in every position)          *)
(*   [k |-> "opaque"]       a child construct containing separators ( {,=} )          *)
(*   [k |-> "comment"]      a comment containing separators ( %,= + newline )         *)
(*   [k |-> "none"]         a None placeholder in the list                            *)
(* laid out in a source string; every node has [k, txt, pos, end].                    *)
EXTENDS Integers, Sequences, FiniteSets, TLC

NoMax == 99
OpaqueSrc == <<123, 44, 61, 125>>          \* {,=}
CommentSrc == <<37, 44, 61, 10>>           \* %,=\n

SrcOf(it) == IF it.k = "chars" THEN it.txt ELSE IF it.k = "opaque" THEN OpaqueSrc
             ELSE IF it.k = "comment" THEN CommentSrc ELSE <<>>
RECURSIVE Layout(_, _)
Layout(items, p) ==         \* nodes with positions; None items have pos = end = -1
    IF items = <<>> THEN <<>>
    ELSE LET it == Head(items)
             n == IF it.k = "none" THEN [k |-> "none", txt |-> <<>>, pos |-> -1, end |-> -1]
                  ELSE [k |-> it.k, txt |-> SrcOf(it), pos |-> p, end |-> p + Len(SrcOf(it))]
         IN <<n>> \o Layout(Tail(items), p + Len(SrcOf(it)))
RECURSIVE Source(_)
Source(items) == IF items = <<>> THEN <<>> ELSE SrcOf(Head(items)) \o Source(Tail(items))

(* ---- separators ------------------------------------------------------------------------ *)
(* sep: [t |-> "str", lit] | [t |-> "class", set]  (regex [..] / callable): first match at or after `from` *)
(* returns <<idx, end>> (0-based, end exclusive) or <<-1, -1>>                                              *)
RECURSIVE FindLit(_, _, _)
FindLit(w, lit, i) == IF i + Len(lit) > Len(w) THEN <<-1, -1>>
                      ELSE IF \A k \in 1..Len(lit) : w[i + k] = lit[k] THEN <<i, i + Len(lit)>>
                      ELSE FindLit(w, lit, i + 1)
RECURSIVE FindClass(_, _, _)
FindClass(w, set, i) == IF i >= Len(w) THEN <<-1, -1>>
                        ELSE IF w[i + 1] \in set THEN <<i, i + 1>> ELSE FindClass(w, set, i + 1)
(* regular expressions that look at what precedes the match, searched with rx.search(chars, pos): the       *)
(* assertion sees the real text before `from` (within the same character node)                               *)
(*   [t |-> "notafter", lit, c]   (?<!c)lit : lit not preceded by character c                                *)
(*   [t |-> "bosalt", lit, alt]   ^lit|alt  : lit only at the very start of the node's text, or alt anywhere  *)
RECURSIVE FindNotAfter(_, _, _, _)
FindNotAfter(w, lit, c, i) == IF i + Len(lit) > Len(w) THEN <<-1, -1>>
                              ELSE IF (\A k \in 1..Len(lit) : w[i + k] = lit[k]) /\ (i = 0 \/ w[i] # c) THEN <<i, i + Len(lit)>>
                              ELSE FindNotAfter(w, lit, c, i + 1)
RECURSIVE FindBosAlt(_, _, _, _)
FindBosAlt(w, lit, alt, i) == IF i >= Len(w) THEN <<-1, -1>>
                              ELSE IF i = 0 /\ Len(lit) <= Len(w) /\ (\A k \in 1..Len(lit) : w[k] = lit[k]) THEN <<0, Len(lit)>>
                              ELSE IF w[i + 1] = alt THEN <<i, i + 1>>
                              ELSE FindBosAlt(w, lit, alt, i + 1)
NextSep(w, sep, from) == CASE sep.t = "str" -> FindLit(w, sep.lit, from)
                           [] sep.t = "class" -> FindClass(w, sep.set, from)
                           [] sep.t = "notafter" -> FindNotAfter(w, sep.lit, sep.c, from)
                           [] sep.t = "bosalt" -> FindBosAlt(w, sep.lit, sep.alt, from)

CharsNode(txt, n, a, b) == [k |-> "chars", txt |-> txt, pos |-> n.pos + a, end |-> n.pos + b]
Part(nodes, pe) == [nodes |-> nodes, pos_end |-> pe]
Sub(w, a, b) == IF b <= a THEN <<>> ELSE SubSeq(w, a + 1, b)

(* ---- split_at_chars ---------------------------------------------------------------------- *)
(* state of the scan: out (emitted parts), pend (pending nodes)                                 *)
RECURSIVE InChars(_, _, _, _, _, _, _)
InChars(n, prevend, out, pend, sep, maxsplit, keepempty) ==        \* returns <<out, pend>>
    LET m == IF Len(out) >= maxsplit THEN <<-1, Len(n.txt)>> ELSE NextSep(n.txt, sep, prevend) IN
    IF m[1] # -1
    THEN LET p == Sub(n.txt, prevend, m[1]) IN
         IF prevend = 0
         THEN LET pend2 == IF p # <<>> THEN Append(pend, CharsNode(p, n, prevend, m[1])) ELSE pend
                  out2 == IF pend2 # <<>> \/ keepempty THEN Append(out, Part(pend2, n.pos + m[1])) ELSE out
              IN InChars(n, m[2], out2, <<>>, sep, maxsplit, keepempty)
         ELSE LET these == IF p # <<>> THEN << CharsNode(p, n, prevend, m[1]) >> ELSE <<>>
                  out2 == IF these # <<>> \/ keepempty THEN Append(out, Part(these, n.pos + m[1])) ELSE out
              IN InChars(n, m[2], out2, pend, sep, maxsplit, keepempty)
    ELSE IF prevend = 0 THEN <<out, Append(pend, n)>>
    ELSE LET p == Sub(n.txt, prevend, Len(n.txt)) IN
         <<out, IF p # <<>> THEN Append(pend, CharsNode(p, n, prevend, Len(n.txt))) ELSE pend>>

RECURSIVE Scan(_, _, _, _, _, _, _, _)
Scan(nodes, i, out, pend, sep, maxsplit, keepempty, skipnone) ==
    IF i > Len(nodes) THEN <<out, pend>>
    ELSE LET n == nodes[i] IN
         IF n.k = "none" THEN Scan(nodes, i + 1, out, IF skipnone THEN pend ELSE Append(pend, n), sep, maxsplit, keepempty, skipnone)
         ELSE IF n.k = "chars"
              THEN LET r == InChars(n, 0, out, pend, sep, maxsplit, keepempty) IN
                   Scan(nodes, i + 1, r[1], r[2], sep, maxsplit, keepempty, skipnone)
              ELSE Scan(nodes, i + 1, out, Append(pend, n), sep, maxsplit, keepempty, skipnone)
ListEnd(nodes) == LET real == { i \in 1..Len(nodes) : nodes[i].k # "none" } IN
                  IF real = {} THEN -1 ELSE nodes[CHOOSE i \in real : \A j \in real : j <= i].end
SplitAtChars(nodes, sep, maxsplit, keepempty, skipnone) ==
    LET r == Scan(nodes, 1, <<>>, <<>>, sep, maxsplit, keepempty, skipnone) IN
    IF r[2] # <<>> \/ keepempty THEN Append(r[1], Part(r[2], ListEnd(nodes))) ELSE r[1]

(* ---- split_at_node ------------------------------------------------------------------------- *)
(* pred: set of node kinds that are separators                                                   *)
RECURSIVE SplitNodes(_, _, _, _, _, _, _, _)
SplitNodes(nodes, i, lists, nomore, pred, keepsep, maxsplit, skipnone) ==
    IF i > Len(nodes) THEN lists
    ELSE LET n == nodes[i] IN
         IF skipnone /\ n.k = "none" THEN SplitNodes(nodes, i + 1, lists, nomore, pred, keepsep, maxsplit, skipnone)
         ELSE IF ~nomore /\ n.k \in pred
              THEN LET l2 == Append(lists, IF keepsep THEN <<n>> ELSE <<>>) IN
                   SplitNodes(nodes, i + 1, l2, maxsplit # NoMax /\ Len(l2) >= maxsplit, pred, keepsep, maxsplit, skipnone)
              ELSE SplitNodes(nodes, i + 1, [lists EXCEPT ![Len(lists)] = Append(@, n)], nomore, pred, keepsep, maxsplit, skipnone)
SplitAtNode(nodes, pred, keepsep, maxsplit, skipnone) ==
    SplitNodes(nodes, 1, << <<>> >>, maxsplit = 0, pred, keepsep, maxsplit, skipnone)

(* ---- parse_keyval_content --------------------------------------------------------------------- *)
(* result: sequence of <<key text, value nodes>> in insertion order; a missing value is the single   *)
(* node "none"; [err |-> TRUE] for the ValueError of the 'error' policy.                              *)
(* VKeyVal = "as_implemented": the '=' split drops an empty key ("=a" -> key "a" without value) and   *)
(* the 'first' policy stores a raw list (the pinned code then fails on the third occurrence).          *)
RECURSIVE ContentAsChars(_)
ContentAsChars(ns) == IF ns = <<>> THEN <<>>
                      ELSE (IF Head(ns).k = "chars" THEN Head(ns).txt
                            ELSE IF Head(ns).k = "opaque" THEN <<44, 61>> ELSE <<>>) \o ContentAsChars(Tail(ns))
NoneNode == [k |-> "none", txt |-> <<>>, pos |-> -1, end |-> -1]
ValueOf(eqparts) ==
    IF Len(eqparts) < 2 THEN << NoneNode >>
    ELSE LET v == eqparts[2].nodes IN
         IF Len(v) = 1 /\ v[1].k = "opaque"
         THEN << [k |-> "chars", txt |-> <<44, 61>>, pos |-> v[1].pos + 1, end |-> v[1].end - 1] >>   \* group contents
         ELSE v
KeyIdx(acc, key) == LET hits == { i \in 1..Len(acc) : acc[i][1] = key } IN IF hits = {} THEN 0 ELSE CHOOSE i \in hits : TRUE
RECURSIVE KVFold(_, _, _, _, _, _)
KVFold(parts, i, acc, seen, policy, variant) ==       \* seen: key -> number of occurrences so far
    IF i > Len(parts) THEN [err |-> "", kv |-> acc]
    ELSE LET eq == SplitAtChars(parts[i].nodes, [t |-> "str", lit |-> <<61>>], 1, variant = "intended", TRUE)
         IN IF eq = <<>> THEN KVFold(parts, i + 1, acc, seen, policy, variant)
            ELSE LET key == ContentAsChars(eq[1].nodes)
                     val == ValueOf(eq)
                     k == KeyIdx(acc, key)
                 IN IF k = 0 THEN KVFold(parts, i + 1, Append(acc, <<key, val>>), seen, policy, variant)
                    ELSE IF policy = "error" THEN [err |-> "ValueError", kv |-> acc]
                    ELSE IF policy = "first" /\ variant = "as_implemented" /\ "raw" \in DOMAIN seen
                         THEN [err |-> "AttributeError", kv |-> acc]
                    ELSE LET newval == IF policy = "concatenate" THEN acc[k][2] \o val
                                       ELSE IF policy = "first" THEN acc[k][2] ELSE val
                             seen2 == IF policy = "first" /\ variant = "as_implemented" THEN [raw |-> TRUE] ELSE seen
                         IN KVFold(parts, i + 1, [acc EXCEPT ![k] = <<key, newval>>], seen2, policy, variant)
KeyVal(nodes, policy, variant) ==
    KVFold(SplitAtChars(nodes, [t |-> "str", lit |-> <<44>>], NoMax, FALSE, TRUE), 1, <<>>, [none |-> TRUE], policy, variant)

(* ---- Tier A ------------------------------------------------------------------------------------ *)
RECURSIVE ConcatTxt(_)
ConcatTxt(ns) == IF ns = <<>> THEN <<>> ELSE Head(ns).txt \o ConcatTxt(Tail(ns))
RECURSIVE JoinParts(_, _, _)
JoinParts(parts, lit, i) == IF i > Len(parts) THEN <<>>
                            ELSE ConcatTxt(parts[i].nodes) \o (IF i < Len(parts) THEN lit ELSE <<>>) \o JoinParts(parts, lit, i + 1)
(* parts joined with the (literal) separator reproduce the source *)
Reproduces(nodes, parts, lit) == JoinParts(parts, lit, 1) = ConcatTxt(SelectSeq(nodes, LAMBDA n : n.k # "none"))
(* every returned node carries the text of the source at its position; opaque items are returned whole *)
NodesPlaced(src, parts) == \A i \in 1..Len(parts) : \A j \in 1..Len(parts[i].nodes) :
                              LET n == parts[i].nodes[j] IN
                              n.k = "none" \/ (n.txt = Sub(src, n.pos, n.end) /\ (n.k = "opaque" => n.txt = OpaqueSrc)
                                               /\ (n.k = "comment" => n.txt = CommentSrc))
NonEmpty(parts) == SelectSeq(parts, LAMBDA p : p.nodes # <<>>)
=============================================================================

------------------------------- MODULE TreeProps -------------------------------
(* Tier A predicates over node trees (pure operators, no state).  A tree is a    *)
(* sequence of node records in the uniform shape of Parser.tla                   *)
(*   [k, pos, end, name, delims, disp, args, body, hasbody, math, mdelim, post]  *)
(* optionally extended with `txt` (the text carried by chars / comment nodes).   *)
(* The same operators judge the reference model's own trees (inside the export   *)
(* runs) and trees recorded from the implementation (trace validation).          *)
EXTENDS Integers, Sequences, FiniteSets, TLC

TAt(s, i) == s[i + 1]
TSlice(s, a, b) == IF b <= a THEN <<>> ELSE SubSeq(s, a + 1, b)

(* children in document order: argument slots (absent slots skipped), then the body *)
RECURSIVE ArgNodes(_, _)
ArgNodes(args, i) == IF i > Len(args) THEN <<>> ELSE args[i].ns \o ArgNodes(args, i + 1)
Kids(n) == ArgNodes(n.args, 1) \o n.body

(* C01: every node lies inside [lo, hi]; its children lie inside its own span, in  *)
(* order, without overlapping; chars / comment text equals the source slice        *)
RECURSIVE NodeCover(_, _, _, _, _)
RECURSIVE SeqCover(_, _, _, _, _, _)
NodeCover(s, n, lo, hi, checktxt) ==
    /\ lo <= n.pos /\ n.pos <= n.end /\ n.end <= hi
    /\ (checktxt /\ "txt" \in DOMAIN n /\ n.k = "chars") => n.txt = TSlice(s, n.pos, n.end)
    /\ (checktxt /\ "txt" \in DOMAIN n /\ n.k = "comment") =>
           /\ n.end - n.post >= n.pos + 1
           /\ n.txt = TSlice(s, n.pos + 1, n.end - n.post)
    /\ SeqCover(s, Kids(n), 1, n.pos, n.end, checktxt)
SeqCover(s, ns, i, cursor, hi, checktxt) ==
    IF i > Len(ns) THEN TRUE
    ELSE /\ NodeCover(s, ns[i], cursor, hi, checktxt)
         /\ SeqCover(s, ns, i + 1, ns[i].end, hi, checktxt)

(* top-level nodes tile the whole input *)
Tiles(s, ns) ==
    /\ (ns = <<>> => Len(s) = 0)
    /\ (ns # <<>> => ns[1].pos = 0 /\ ns[Len(ns)].end = Len(s))
    /\ \A i \in 1..(Len(ns) - 1) : ns[i].end = ns[i + 1].pos

CoverStrict(s, ns) == Tiles(s, ns) /\ SeqCover(s, ns, 1, 0, Len(s), TRUE)
CoverTolerant(s, ns) == SeqCover(s, ns, 1, 0, Len(s), FALSE)

(* C06 (c): the tolerant result keeps the nodes parsed before the first error: all *)
(* but the last node of the strict parse of the longest strictly parseable prefix  *)
(* are returned unchanged, and the next node starts where the last prefix node     *)
(* started (it may be longer, or even of another kind: the prefix can cut a token) *)
PrefixKept(ns, tn) ==
    /\ Len(ns) >= Len(tn)
    /\ \A i \in 1..(Len(tn) - 1) : ns[i] = tn[i]
    /\ (tn # <<>> => ns[Len(tn)].pos = tn[Len(tn)].pos)

(* C06 (c) for input that only lacks closing delimiters: cn = strict tree of the input completed with its closers.   *)
(* Every leaf (node without children: characters, comments, specials, argument-less macros) of cn that ends inside    *)
(* the original input is a leaf of the tolerant result ns, in the same order.                                           *)
RECURSIVE LeavesOf(_)
RECURSIVE LeavesSeq(_, _)
LeavesOf(n) == IF Kids(n) = <<>> /\ n.k \in {"chars", "comment", "specials", "macro"} THEN << <<n.k, n.pos, n.end, n.name>> >>
               ELSE LeavesSeq(Kids(n), 1)
LeavesSeq(ns, i) == IF i > Len(ns) THEN <<>> ELSE LeavesOf(ns[i]) \o LeavesSeq(ns, i + 1)
RECURSIVE IsSubseq(_, _, _, _)
IsSubseq(a, i, b, j) == IF i > Len(a) THEN TRUE ELSE IF j > Len(b) THEN FALSE
                        ELSE IF a[i] = b[j] THEN IsSubseq(a, i + 1, b, j + 1) ELSE IsSubseq(a, i, b, j + 1)
CompletionKept(ns, cn, slen) ==
    LET want == SelectSeq(LeavesSeq(cn, 1), LAMBDA x : x[3] <= slen /\ x[3] > x[2]) IN
    IsSubseq(want, 1, LeavesSeq(ns, 1), 1)

(* C13: no comment, environment or math node anywhere in the tree *)
RECURSIVE InertSeq(_, _)
InertNode(n) == n.k \notin {"comment", "env", "math"} /\ InertSeq(Kids(n), 1)
InertSeq(ns, i) == IF i > Len(ns) THEN TRUE ELSE InertNode(ns[i]) /\ InertSeq(ns, i + 1)
Inert(ns) == InertSeq(ns, 1)
(* the same, except for constructs that lie entirely inside the replacement text of ONE input character (a table entry  *)
(* such as \'{$\alpha$} opens and closes its own formula; nothing the input's characters wrote is involved)            *)
RECURSIVE InertSeqX(_, _, _)
InertNodeX(n, spans) == \/ (n.k \in {"comment", "env", "math"} /\ \E i \in DOMAIN spans : spans[i][1] <= n.pos /\ n.end <= spans[i][2])
                        \/ (n.k \notin {"comment", "env", "math"} /\ InertSeqX(Kids(n), 1, spans))
InertSeqX(ns, i, spans) == IF i > Len(ns) THEN TRUE ELSE InertNodeX(ns[i], spans) /\ InertSeqX(ns, i + 1, spans)
InertExcept(ns, spans) == InertSeqX(ns, 1, spans)

RECURSIVE Concat(_)
Concat(sq) == IF sq = <<>> THEN <<>> ELSE Head(sq) \o Concat(Tail(sq))
VerbatimReproduces(s, verbs) == Concat(verbs) = s
=============================================================================

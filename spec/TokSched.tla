------------------------------- MODULE TokSched -------------------------------
(* C11, arbitrary schedules: a LatexTokenReader driven through EVERY sequence of   *)
(* at most MaxOps calls of its interface, token-level and character-level mixed:   *)
(*   Peek        peek_token(ps)                                                    *)
(*   Next        next_token(ps)                                                    *)
(*   Chars       next_chars(1, ps)          (reads one raw character)              *)
(*   PeekChars   peek_chars(2, ps)                                                 *)
(*   SkipSpace   skip_space_chars(ps)                                              *)
(*   MoveTo      move_to_token(last)        last = the token returned most recently *)
(*   MovePast    move_past_token(last)                                              *)
(*   Home        move_to_pos_chars(0)                                               *)
(* The machine is the documented meaning of each call: the only state of a reader   *)
(* is its position; a token read is a function of (string, position, parsing state) *)
(* alone.  Every behaviour is printed with the observation of each call (returned   *)
(* token / characters / exception and the position afterwards) and replayed on the  *)
(* real reader, which must answer identically -- whatever it remembers between      *)
(* calls must not show.                                                             *)
EXTENDS Tokenizer, Json

CONSTANTS Atoms, K, Shard, CfgNames, Cfgs, Modes, MaxOps, Ops

RECURSIVE Flat(_)
Flat(sq) == IF sq = <<>> THEN <<>> ELSE Atoms[Head(sq)] \o Flat(Tail(sq))

VARIABLES s, cfg, mode, pos, last, hist
vars == <<s, cfg, mode, pos, last, hist>>

NoTok == [t |-> "none"]
St == Cfgs[cfg]
Tk(p) == TokenAtF(s, p, St)
Visible(t) == IF t.t = "ERR" /\ mode = "tolerant" THEN t.ph ELSE t

Init == /\ IF Shard = 0 THEN s = <<>>
           ELSE \E n \in 0..(K - 1) : \E sq \in [1..n -> 1..Len(Atoms)] : s = Atoms[Shard] \o Flat(sq)
        /\ cfg \in CfgNames /\ mode \in Modes /\ pos = 0 /\ last = NoTok /\ hist = <<>>

Rec(op, obs, p1) == hist' = Append(hist, [op |-> op, obs |-> obs, p1 |-> p1])
Room == Len(hist) < MaxOps

Peek == /\ Room /\ "Peek" \in Ops
        /\ LET v == Visible(Tk(pos)) IN
           /\ Rec("Peek", v, pos) /\ pos' = pos
           /\ last' = IF IsTok(v) THEN v ELSE last
        /\ UNCHANGED <<s, cfg, mode>>
NextTok == /\ Room /\ "Next" \in Ops
           /\ LET v == Visible(Tk(pos))
                  p1 == IF IsTok(v) THEN v.pos_end ELSE pos
              IN /\ Rec("Next", v, p1) /\ pos' = p1
                 /\ last' = IF IsTok(v) THEN v ELSE last
           /\ UNCHANGED <<s, cfg, mode>>
Chars == /\ Room /\ "Chars" \in Ops
         /\ IF pos >= Len(s) THEN Rec("Chars", [t |-> "EOS"], pos) /\ pos' = pos
            ELSE Rec("Chars", [t |-> "chars", c |-> Slice(s, pos, pos + 1)], pos + 1) /\ pos' = pos + 1
         /\ UNCHANGED <<s, cfg, mode, last>>
PeekChars == /\ Room /\ "PeekChars" \in Ops
             /\ IF pos >= Len(s) THEN Rec("PeekChars", [t |-> "EOS"], pos)
                ELSE Rec("PeekChars", [t |-> "chars", c |-> Slice(s, pos, IF pos + 2 > Len(s) THEN Len(s) ELSE pos + 2)], pos)
             /\ UNCHANGED <<s, cfg, mode, pos, last>>
SkipSpace == /\ Room /\ "SkipSpace" \in Ops
             /\ LET e == SpaceEnd(s, pos) IN Rec("SkipSpace", [t |-> "space", c |-> Slice(s, pos, e)], e) /\ pos' = e
             /\ UNCHANGED <<s, cfg, mode, last>>
MoveTo == /\ Room /\ "MoveTo" \in Ops /\ last # NoTok
          /\ LET p1 == last.pos - last.pre IN Rec("MoveTo", [t |-> "moved"], p1) /\ pos' = p1
          /\ UNCHANGED <<s, cfg, mode, last>>
MovePast == /\ Room /\ "MovePast" \in Ops /\ last # NoTok
            /\ Rec("MovePast", [t |-> "moved"], last.pos_end) /\ pos' = last.pos_end
            /\ UNCHANGED <<s, cfg, mode, last>>
Home == /\ Room /\ "Home" \in Ops /\ pos # 0
        /\ Rec("Home", [t |-> "moved"], 0) /\ pos' = 0
        /\ UNCHANGED <<s, cfg, mode, last>>

Next == Peek \/ NextTok \/ Chars \/ PeekChars \/ SkipSpace \/ MoveTo \/ MovePast \/ Home
Spec == Init /\ [][Next]_vars

(* Tier A on every schedule *)
PeekHasNoEffect == [][(Len(hist') > Len(hist) /\ hist'[Len(hist')].op \in {"Peek", "PeekChars"}) => pos' = pos]_vars
(* a token read right after a peek at the same position (nothing in between) is the peeked token *)
PeekThenNext == \A i \in 1..(Len(hist) - 1) :
                   (hist[i].op = "Peek" /\ hist[i + 1].op = "Next") => hist[i + 1].obs = hist[i].obs
(* a successful token read strictly advances *)
ReadAdvances == \A i \in 1..Len(hist) :
                   (hist[i].op = "Next" /\ IsTok(hist[i].obs)) =>
                       hist[i].p1 > (IF i = 1 THEN 0 ELSE hist[i - 1].p1)
(* the token returned by a read starts (after its pre-space) where the reader stood *)
ReadAtPosition == \A i \in 1..Len(hist) :
                   (hist[i].op \in {"Next", "Peek"} /\ IsTok(hist[i].obs)) =>
                       hist[i].obs.pos - hist[i].obs.pre = (IF i = 1 THEN 0 ELSE hist[i - 1].p1)

Emit == Len(hist) = MaxOps => PrintT(ToJson([s |-> s, cfg |-> cfg, mode |-> mode, hist |-> hist]))
=============================================================================

--------------------------------- MODULE Modes ---------------------------------
(* C10 Tier A: each node's recorded math/text mode is the one implied by the      *)
(* enclosing structure.  The lists of text-like macros, math-argument macros and   *)
(* math environments are parameters (cfg record), frozen from the documentation    *)
(* by the harness -- not read from the implementation.                             *)
EXTENDS Integers, Sequences, FiniteSets, TLC

(* expectation handed down to children: [m |-> in math mode, d |-> delimiter] *)
Exp(m, d) == [m |-> m, d |-> d]
(* lists come from JSON as sequences *)
Has(sq, x) == \E i \in 1..Len(sq) : sq[i] = x

RECURSIVE NodeModes(_, _, _)
RECURSIVE SeqModes(_, _, _, _)
RECURSIVE ArgsModes(_, _, _, _, _)
SeqModes(ns, i, e, cfg) == IF i > Len(ns) THEN TRUE ELSE NodeModes(ns[i], e, cfg) /\ SeqModes(ns, i + 1, e, cfg)
ArgsModes(args, i, n, e, cfg) ==
    IF i > Len(args) THEN TRUE
    ELSE LET ae == IF n.k = "macro" /\ Has(cfg.textmacros, n.name) THEN Exp(FALSE, <<>>)
                   ELSE IF n.k = "macro" /\ Has(cfg.mathmacros, n.name) THEN Exp(TRUE, <<>>)
                   \* a single argument slot declared text-like / math (user-defined macros): only that slot
                   ELSE IF n.k = "macro" /\ Has(cfg.argmodes, <<n.name, i, "text">>) THEN Exp(FALSE, <<>>)
                   ELSE IF n.k = "macro" /\ Has(cfg.argmodes, <<n.name, i, "math">>) THEN Exp(TRUE, <<>>)
                   ELSE e
         IN SeqModes(args[i].ns, 1, ae, cfg) /\ ArgsModes(args, i + 1, n, e, cfg)
NodeModes(n, e, cfg) ==
    /\ n.math = e.m
    /\ (e.m => n.mdelim = e.d)
    /\ CASE n.k = "math" ->
              /\ n.disp = (IF Has(cfg.inline_open, n.delims[1]) THEN "inline" ELSE "display")
              /\ Has(cfg.pairs, n.delims)          \* the recorded delimiters are a documented (opening, closing) pair
              /\ SeqModes(n.body, 1, Exp(TRUE, n.delims[1]), cfg)
         [] n.k = "env" ->
              /\ ArgsModes(n.args, 1, n, e, cfg)
              /\ SeqModes(n.body, 1, IF Has(cfg.mathenvs, n.name) THEN Exp(TRUE, <<>>) ELSE e, cfg)
         [] n.k \in {"macro", "specials"} -> ArgsModes(n.args, 1, n, e, cfg)
         [] n.k = "group" -> SeqModes(n.body, 1, e, cfg)
         [] OTHER -> TRUE
ModesOK(ns, cfg) == SeqModes(ns, 1, Exp(cfg.top_math, cfg.top_delim), cfg)
=============================================================================

------------------------------ MODULE Tokenizer ------------------------------
(* Tier B reference model of pylatexenc.latexnodes.LatexTokenReader and of the *)
(* derived lookup tables of ParsingState.                                      *)
(*                                                                              *)
(* Positions are 0-based as in Python: At(s, i) is s[i].  Strings are           *)
(* sequences of code points.  A parsing state `st` is a record of the public    *)
(* fields; the five cached tables the token reader consults are the record      *)
(* Fresh(st) -- passed explicitly to TokenAt so that C17 can feed tables that   *)
(* were inherited from a parent state instead of freshly computed ones.         *)
(*                                                                              *)
(* TokenAt follows the dispatch order of impl_peek_token: paragraph break,      *)
(* math delimiter (expected closing delimiter first, then longest), escape ->   *)
(* environment / macro, comment, group delimiters, specials (longest match),    *)
(* character (possibly forbidden).  Result: a token record, or                  *)
(*   [t |-> "EOS", final]            end of stream, `final` trailing spaces     *)
(*   [t |-> "ERR", what, ph, resume, pos]   token error with its recovery       *)
(*                                   placeholder token and resume position      *)
(* VTok = "as_implemented" reproduces the pinned zero-width placeholder for an  *)
(* escape character at the very end of the input.                               *)
EXTENDS Integers, Sequences, FiniteSets, TLC

CONSTANT VTok

At(s, i) == s[i + 1]
Slice(s, a, b) == IF b <= a THEN <<>> ELSE SubSeq(s, a + 1, b)      \* s[a:b]

NL == 10
(* str.isspace() for the code points that occur in the models *)
SpaceChars == {9, 10, 11, 12, 13, 28, 29, 30, 31, 32, 133, 160}
IsSpace(c) == c \in SpaceChars
AlphaDefault == (65..90) \cup (97..122)
EnvNameChars == (65..90) \cup (97..122) \cup (48..57) \cup
                {42, 46, 95, 32, 58, 47, 33, 94, 40, 41, 91, 93, 45}

StartsWith(s, p, d) ==
    /\ p + Len(d) <= Len(s)
    /\ \A k \in 1..Len(d) : At(s, p + k - 1) = d[k]

RECURSIVE SpaceEnd(_, _)
SpaceEnd(s, p) == IF p < Len(s) /\ IsSpace(At(s, p)) THEN SpaceEnd(s, p + 1) ELSE p

RECURSIVE RunEnd(_, _, _)
RunEnd(s, p, set) == IF p < Len(s) /\ At(s, p) \in set THEN RunEnd(s, p + 1, set) ELSE p

RECURSIVE FindChar(_, _, _)      \* first index >= p holding c, or Len(s)
FindChar(s, p, c) == IF p >= Len(s) THEN Len(s)
                     ELSE IF At(s, p) = c THEN p ELSE FindChar(s, p + 1, c)

CountNL(s, a, b) == Cardinality({ i \in a..(b - 1) : At(s, i) = NL })
FirstNL(s, a, b) == CHOOSE i \in a..(b - 1) : At(s, i) = NL /\ \A j \in a..(i - 1) : At(s, j) # NL
LastNL(s, a, b)  == CHOOSE i \in a..(b - 1) : At(s, i) = NL /\ \A j \in (i + 1)..(b - 1) : At(s, j) # NL

(* post-space of macros and comments: whitespace from a, but if it contains a  *)
(* paragraph break only up to (excluding) the first newline                    *)
PostSpaceEnd(s, a) ==
    LET e == SpaceEnd(s, a) IN
    IF CountNL(s, a, e) >= 2 THEN FirstNL(s, a, e) ELSE e

Tok(kind, arg, pos, end, prestart, postlen) ==
    [t |-> kind, arg |-> arg, pos |-> pos, pos_end |-> end,
     pre |-> pos - prestart, post |-> postlen]

(* ---- derived tables of a parsing state ("fresh" computation) -------------- *)
Pairs(st) == [i \in 1..(Len(st.inline) + Len(st.display)) |->
                 IF i <= Len(st.inline)
                 THEN [open |-> st.inline[i][1], close |-> st.inline[i][2], tok |-> "mathmode_inline"]
                 ELSE [open |-> st.display[i - Len(st.inline)][1],
                       close |-> st.display[i - Len(st.inline)][2], tok |-> "mathmode_display"]]
StartCharsOf(pairs) == { pairs[i].open[1] : i \in DOMAIN pairs } \cup { pairs[i].close[1] : i \in DOMAIN pairs }
AllDelimsOf(pairs) == { <<pairs[i].open, pairs[i].tok>> : i \in DOMAIN pairs } \cup
                      { <<pairs[i].close, pairs[i].tok>> : i \in DOMAIN pairs }
(* _math_delims_info_by_open is a dict: for a repeated opening delimiter the last pair wins *)
ByOpenOf(pairs, d) == LET hits == { i \in DOMAIN pairs : pairs[i].open = d } IN
                      IF hits = {} THEN <<>>
                      ELSE << pairs[CHOOSE j \in hits : \A k \in hits : k <= j] >>
ExpectOf(pairs, in_math, mdelim) == IF ~in_math THEN <<>> ELSE ByOpenOf(pairs, mdelim)
Fresh(st) == LET pr == Pairs(st) IN
    [ pairs  |-> pr,
      start  |-> StartCharsOf(pr),
      all    |-> AllDelimsOf(pr),
      expect |-> ExpectOf(pr, st.in_math, st.mdelim),
      gopen  |-> { st.groups[i][1] : i \in DOMAIN st.groups },
      gclose |-> { st.groups[i][2] : i \in DOMAIN st.groups } ]

(* ---- the dispatch of impl_peek_token --------------------------------------- *)
MathDelimAt(s, q, st, tb, p0) ==      \* <<>> if none
    LET ec == tb.expect IN
    IF st.in_math /\ ec # <<>> /\ StartsWith(s, q, ec[1].close)
    THEN << Tok(ec[1].tok, ec[1].close, q, q + Len(ec[1].close), p0, 0) >>
    ELSE LET cands == { d \in tb.all : StartsWith(s, q, d[1]) } IN
         IF cands = {} THEN <<>>
         ELSE LET longest == { x \in cands : \A y \in cands : Len(y[1]) <= Len(x[1]) }
                  \* same delimiter listed as inline and display: the inline entry is sorted first
                  d == IF \E x \in longest : x[2] = "mathmode_inline"
                       THEN CHOOSE x \in longest : x[2] = "mathmode_inline"
                       ELSE CHOOSE x \in longest : TRUE
              IN << Tok(d[2], d[1], q, q + Len(d[1]), p0, 0) >>

MacroAt(s, q, st, p0) ==
    IF q + 1 >= Len(s)
    THEN [t |-> "ERR", what |-> "eos_after_escape",
          ph |-> IF VTok = "as_implemented" THEN Tok("char", <<>>, q, q, p0, 0)
                 ELSE Tok("char", <<st.esc>>, q, q + 1, p0, 0),
          resume |-> Len(s), pos |-> q + 1]
    ELSE LET c2 == At(s, q + 1)
             isa == c2 \in st.alpha
             ne  == IF isa THEN RunEnd(s, q + 2, st.alpha) ELSE q + 2
             pe  == IF isa THEN PostSpaceEnd(s, ne) ELSE ne
         IN Tok("macro", Slice(s, q + 1, ne), q, pe, p0, pe - ne)

BEGIN == <<98, 101, 103, 105, 110>>
END_  == <<101, 110, 100>>

EnvAt(s, q, st, p0, be) ==       \* be = BEGIN / END_
    LET pn  == q + 1 + Len(be)
        sp  == SpaceEnd(s, pn)
        ok1 == sp < Len(s) /\ At(s, sp) = 123
        ne  == IF ok1 THEN RunEnd(s, sp + 1, EnvNameChars) ELSE sp
        ok  == ok1 /\ ne > sp + 1 /\ ne < Len(s) /\ At(s, ne) = 125
    IN IF ok
       THEN Tok(IF be = BEGIN THEN "begin_environment" ELSE "end_environment",
                Slice(s, sp + 1, ne), q, ne + 1, p0, 0)
       ELSE [t |-> "ERR", what |-> "bad_beginend",
             ph |-> Tok("char", <<st.esc>> \o be, q, q + 1 + Len(be), p0, 0),
             resume |-> q + 1 + Len(be), pos |-> q]

CommentAt(s, q, st, p0) ==
    LET inner == q + Len(st.cmt)
        nl    == FindChar(s, inner, NL)
    IN IF nl = Len(s)
       THEN Tok("comment", Slice(s, inner, Len(s)), q, Len(s), p0, 0)
       ELSE LET pe == PostSpaceEnd(s, nl)
            IN Tok("comment", Slice(s, inner, nl), q, pe, p0, pe - nl)

SpecialsAt(s, q, st) ==          \* longest match, ties to the earlier entry; <<>> if none
    LET hits == { i \in DOMAIN st.specials : StartsWith(s, q, st.specials[i]) } IN
    IF hits = {} THEN <<>>
    ELSE LET i == CHOOSE j \in hits :
                     /\ \A k \in hits : Len(st.specials[k]) <= Len(st.specials[j])
                     /\ \A k \in hits : Len(st.specials[k]) = Len(st.specials[j]) => j <= k
         IN << st.specials[i] >>

TokenAt(s, p, st, tb) ==
    LET q0 == SpaceEnd(s, p) IN
    IF st.en_par /\ CountNL(s, p, q0) >= 2
    THEN LET f == FirstNL(s, p, q0)
             l == LastNL(s, p, q0) + 1
         IN IF st.has_ctx /\ st.par_special
            THEN Tok("specials", <<NL, NL>>, f, l, p, 0)
            ELSE Tok("char", Slice(s, f, l), f, l, p, 0)
    ELSE IF q0 >= Len(s) THEN [t |-> "EOS", final |-> q0 - p]
    ELSE
    LET c  == At(s, q0)
        md == IF st.en_math /\ c \in tb.start THEN MathDelimAt(s, q0, st, tb, p) ELSE <<>>
        be == IF c = st.esc /\ st.en_envs
              THEN (IF StartsWith(s, q0 + 1, BEGIN) THEN BEGIN
                    ELSE IF StartsWith(s, q0 + 1, END_) THEN END_ ELSE <<>>)
              ELSE <<>>
        isenv == be # <<>> /\ LET past == q0 + 1 + Len(be)
                              IN past >= Len(s) \/ At(s, past) \notin st.alpha
    IN IF md # <<>> THEN md[1]
       ELSE IF isenv THEN EnvAt(s, q0, st, p, be)
       ELSE IF c = st.esc /\ st.en_macros THEN MacroAt(s, q0, st, p)
       ELSE IF st.en_comments /\ StartsWith(s, q0, st.cmt) THEN CommentAt(s, q0, st, p)
       ELSE IF st.en_groups /\ c \in tb.gopen THEN Tok("brace_open", <<c>>, q0, q0 + 1, p, 0)
       ELSE IF st.en_groups /\ c \in tb.gclose THEN Tok("brace_close", <<c>>, q0, q0 + 1, p, 0)
       ELSE LET sp == IF st.has_ctx /\ st.en_specials THEN SpecialsAt(s, q0, st) ELSE <<>> IN
            IF sp # <<>> THEN Tok("specials", sp[1], q0, q0 + Len(sp[1]), p, 0)
            ELSE IF c \in st.forbidden
                 THEN [t |-> "ERR", what |-> "forbidden",
                       ph |-> Tok("char", <<c>>, q0, q0 + 1, p, 0), resume |-> q0 + 1, pos |-> q0]
                 ELSE Tok("char", <<c>>, q0, q0 + 1, p, 0)

TokenAtF(s, p, st) == TokenAt(s, p, st, Fresh(st))
IsTok(t) == t.t \notin {"EOS", "ERR"}
=============================================================================

------------------------------ MODULE InputFile ------------------------------
(* C15 -- \input never reads outside the configured directory (strict mode),   *)
(* and names that resolve inside the directory are read.                        *)
(*                                                                              *)
(* The file system is a function from paths (sequences of component names,      *)
(* relative to a scratch root) to entries: directory, file, or symbolic link    *)
(* with an absolute target.  Tier B transcribes latex2text/_inputlatexfile.py   *)
(* step by step: join, realpath (one component per step, one symlink hop per    *)
(* step -- posixpath._joinrealpath), containment check, implicit extension,     *)
(* isfile, read.  Variant "as_implemented" = the pinned order and test          *)
(* (string-prefix test on the path *before* the extension is appended);         *)
(* "intended" = component-wise containment of the final real path.              *)
(* Tier A never looks at the algorithm: it judges the identity of the file      *)
(* whose content is returned.                                                   *)
EXTENDS Integers, Sequences, FiniteSets, TLC, Json

CONSTANTS Toggles,      \* set of optional layout entries that vary
          FixedOn,      \* optional entries that are always present
          Comps,        \* request components
          MaxComps,
          Bases,        \* subset of {"dir", "dlink"}
          AllowAbs,     \* BOOLEAN: also absolute requests
          Variant,      \* "intended" | "as_implemented"
          ShardBits     \* function toggle -> BOOLEAN for the toggles fixed in this shard (possibly empty)

T == <<"p", "q">>                       \* everything lives under root/p/q
P(x) == T \o x
NoFile == <<"NONE">>

Optional == {"in", "inl", "g", "sib", "sec", "lnkf", "lnkd", "back", "lnkx", "lnkl", "cap", "lnkz"}

VARIABLES layout, base, req, result, done
vars == <<layout, base, req, result, done>>

Entry(t, target) == [t |-> t, target |-> target]
Dir == Entry("dir", <<>>)
File == Entry("file", <<>>)
Link(target) == Entry("link", target)

(* the file system of a layout *)
FS(L) ==
    LET fixed == ( <<>> :> Dir ) @@ ( <<"p">> :> Dir ) @@ ( T :> Dir ) @@
                 ( P(<<"dir">>) :> Dir ) @@ ( P(<<"dir", "sub">>) :> Dir ) @@
                 ( P(<<"dir", "sub", "deep.tex">>) :> File ) @@
                 ( P(<<"dir", "sub", "deeper">>) :> Dir ) @@
                 ( P(<<"dir2">>) :> Dir ) @@ ( P(<<"out">>) :> Dir ) @@
                 ( P(<<"Dir">>) :> Dir ) @@          \* a neighbour whose name differs from the base directory only in letter case
                 ( P(<<"dlink">>) :> Link(P(<<"dir">>)) )
        opt(name, path, e) == IF name \in L THEN ( path :> e ) ELSE [x \in {} |-> Dir]
    IN fixed @@ opt("in", P(<<"dir", "in.tex">>), File)
             @@ opt("inl", P(<<"dir", "in.latex">>), File)
             @@ opt("g", P(<<"dir", "g">>), File)
             @@ opt("sib", P(<<"dir2", "sib.tex">>), File)
             @@ opt("cap", P(<<"Dir", "cap.tex">>), File)
             \* a directory link inside the base whose target has another parent than the link: lnkz/../deep is dir/sub/deep.tex
             @@ opt("lnkz", P(<<"dir", "lnkz">>), Link(P(<<"dir", "sub", "deeper">>)))
             @@ opt("sec", P(<<"out", "secret.tex">>), File)
             @@ opt("lnkf", P(<<"dir", "lnkf">>), Link(P(<<"out", "secret.tex">>)))
             @@ opt("lnkd", P(<<"dir", "lnkd">>), Link(P(<<"out">>)))
             @@ opt("back", P(<<"out", "back">>), Link(P(<<"dir">>)))
             @@ opt("lnkx", P(<<"dir", "lnk.tex">>), Link(P(<<"out", "secret.tex">>)))
             @@ opt("lnkl", P(<<"dir", "lnk2.latex">>), Link(P(<<"out", "secret.tex">>)))

Front(sq) == SubSeq(sq, 1, Len(sq) - 1)

(* posixpath.realpath (non-strict): walk `rest` over the resolved prefix `cur` *)
RECURSIVE Real(_, _, _, _)
Real(fs, cur, rest, fuel) ==
    IF rest = <<>> THEN cur
    ELSE LET n == Head(rest)
             r == Tail(rest)
         IN IF n = "." THEN Real(fs, cur, r, fuel)
            ELSE IF n = ".." THEN Real(fs, IF cur = <<>> THEN <<>> ELSE Front(cur), r, fuel)
            ELSE LET np == Append(cur, n) IN
                 IF np \in DOMAIN fs /\ fs[np].t = "link" /\ fuel > 0
                 THEN Real(fs, Real(fs, <<>>, fs[np].target, fuel - 1), r, fuel - 1)
                 ELSE Real(fs, np, r, fuel)
RealPath(fs, p) == Real(fs, <<>>, p, 8)

Exists(fs, p) == RealPath(fs, p) \in DOMAIN fs                     \* os.path.exists follows links
IsFile(fs, p) == Exists(fs, p) /\ fs[RealPath(fs, p)].t = "file"
WithExt(p, ext) == IF p = <<>> THEN p ELSE Append(Front(p), p[Len(p)] \o ext)

(* string-prefix relation between component names: in the layouts below only    *)
(* "dir" / "dir2" matters (the real base directory is always root/p/q/dir)      *)
NamePrefix(a, b) == a = b \/ (a = "dir" /\ b = "dir2")
StrPrefix(d, f) == /\ Len(f) >= Len(d) /\ Len(d) > 0
                   /\ \A k \in 1..(Len(d) - 1) : f[k] = d[k]
                   /\ NamePrefix(d[Len(d)], f[Len(d)])
CompPrefix(d, f) == Len(f) >= Len(d) /\ \A k \in 1..Len(d) : f[k] = d[k]

(* join(tex_input_directory, fn) *)
Joined(b, r) == IF r.abs THEN r.comps ELSE P(<<b>>) \o r.comps

(* read_latex_file(): returns the real path of the file read, or NoFile *)
Resolve(fs, b, r) ==
    LET fnfull == RealPath(fs, Joined(b, r))
        dirfull == RealPath(fs, P(<<b>>))
        f1 == IF ~Exists(fs, fnfull) /\ Exists(fs, WithExt(fnfull, ".tex")) THEN WithExt(fnfull, ".tex") ELSE fnfull
        f2 == IF ~Exists(fs, f1) /\ Exists(fs, WithExt(f1, ".latex")) THEN WithExt(f1, ".latex") ELSE f1
    IN IF Variant = "as_implemented"
       THEN (IF ~StrPrefix(dirfull, fnfull) THEN NoFile
             ELSE IF IsFile(fs, f2) THEN RealPath(fs, f2) ELSE NoFile)
       ELSE \* component-wise test, before and again after the extension is appended
            (IF ~CompPrefix(dirfull, fnfull) THEN NoFile
             ELSE IF ~CompPrefix(dirfull, RealPath(fs, f2)) THEN NoFile
             ELSE IF IsFile(fs, f2) THEN RealPath(fs, f2) ELSE NoFile)

(* ---- Tier A -------------------------------------------------------------- *)
RealBase(fs, b) == RealPath(fs, P(<<b>>))
Safe(fs, b, res) == res = NoFile \/ CompPrefix(RealBase(fs, b), res)
(* the requested name, possibly completed with .tex / .latex, designates a regular file *)
(* whose real path lies inside the real base directory                                   *)
Designated(fs, b, r) ==
    LET j == Joined(b, r)
        cands == << j, WithExt(j, ".tex"), WithExt(j, ".latex") >>
        hit == { k \in 1..3 : Exists(fs, cands[k]) }
    IN IF hit = {} THEN NoFile
       ELSE LET k == CHOOSE x \in hit : \A y \in hit : x <= y IN
            IF IsFile(fs, cands[k]) THEN RealPath(fs, cands[k]) ELSE NoFile
Live(fs, b, r, res) ==
    LET d == Designated(fs, b, r) IN
    (d # NoFile /\ CompPrefix(RealBase(fs, b), d)) => res = d

(* ---- machine -------------------------------------------------------------- *)
CompSeqs == UNION { [1..n -> Comps] : n \in 1..MaxComps }
Requests == { [abs |-> FALSE, comps |-> c] : c \in CompSeqs } \cup
            (IF AllowAbs THEN { [abs |-> TRUE, comps |-> T \o c] : c \in CompSeqs } ELSE {})
Layouts == { FixedOn \cup x : x \in SUBSET Toggles }

Init == /\ layout \in { L \in Layouts : \A t \in DOMAIN ShardBits : (t \in L) = ShardBits[t] }
        /\ base \in Bases /\ req \in Requests /\ result = <<"PENDING">> /\ done = FALSE
DoResolve == /\ ~done /\ result' = Resolve(FS(layout), base, req) /\ done' = TRUE
             /\ UNCHANGED <<layout, base, req>>
Next == DoResolve
Spec == Init /\ [][Next]_vars

NeverOutside == done => Safe(FS(layout), base, result)
InsideIsRead == done => Live(FS(layout), base, req, result)
Emit == done => PrintT(ToJson([layout |-> layout, base |-> base, req |-> req, result |-> result,
                               designated |-> Designated(FS(layout), base, req)]))
=============================================================================

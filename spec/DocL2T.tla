-------------------------------- MODULE DocL2T --------------------------------
(* C03 on documents of unbounded shape: the document writer (DocWriter.tla)        *)
(* composed with the reference parser and the documented conversion rules          *)
(* (L2T.tla).  Every finished derivation is parsed by the model and rendered       *)
(* under every whitespace policy and option set; the behaviours are printed for    *)
(* exact replay into latex_to_text.  TLC checks on the model that every written    *)
(* document is accepted and that the written text words survive the conversion     *)
(* in order when nothing filters them (no math removal, no discards).              *)
EXTENDS DocWriter, Json

CONSTANTS MacroSig, EnvSig, SpecSig, HasUnknownMacro, HasUnknownEnv, Sticky, St0,
          MacroText, EnvText, SpecialsText, NfcTab, Pols, OptSets

L == INSTANCE L2T WITH VTok <- "intended", VMarker <- "intended", VVerb <- "intended", VPosNone <- "intended"

Parsed == L!ParseDoc(src, St0)
WellFormedAccepted == (done /\ ~faulted) => Parsed.ok

Outs == [p \in Pols |-> [i \in DOMAIN OptSets |-> L!Render(src, Parsed.v.ns, p, OptSets[i])]]

(* the marker words written inside formulas (x0, x1, ...) appear in the output in the order written, *)
(* whenever formulas are converted as text                                                             *)
RECURSIVE MathMarkers(_)
MathMarkers(nodes) ==
    IF nodes = <<>> THEN <<>>
    ELSE LET nd == Head(nodes)
             own == IF nd.k = "chars" /\ nd.name # <<>> /\ nd.name[1] = 120 THEN <<nd.name>> ELSE <<>>
             RECURSIVE MkArgs(_)
             MkArgs(as) == IF as = <<>> THEN <<>> ELSE MathMarkers(Head(as)) \o MkArgs(Tail(as))
         IN own \o MkArgs(nd.args) \o MathMarkers(nd.body) \o MathMarkers(Tail(nodes))
RECURSIVE FindFrom(_, _, _)
FindFrom(w, x, i) == IF i + Len(x) > Len(w) THEN -1
                     ELSE IF \A k \in 1..Len(x) : w[i + k] = x[k] THEN i + Len(x) ELSE FindFrom(w, x, i + 1)
RECURSIVE InOrder(_, _, _)
InOrder(w, ms, from) == IF ms = <<>> THEN TRUE
                        ELSE LET e == FindFrom(w, Head(ms), from) IN e # -1 /\ InOrder(w, Tail(ms), e)
MarkersSurvive ==
    (done /\ ~faulted /\ Parsed.ok) =>
        \A p \in Pols : \A i \in DOMAIN OptSets :
            OptSets[i].math_mode \in {"text", "with-delimiters"} => InOrder(Outs[p][i], MathMarkers(Tree), 0)

Emit == (done /\ ~faulted /\ Parsed.ok) => PrintT(ToJson([s |-> src, outs |-> Outs]))
=============================================================================

-------------------------------- MODULE Encoder --------------------------------
(* C04 / C13 -- reference model (= Tier A: the documented rule semantics) of      *)
(* latexencode.UnicodeToLatexEncoder.unicode_to_latex().                           *)
(*                                                                                  *)
(* The input is NFC-normalised, then processed left to right.  At each position:    *)
(*   - with non_ascii_only, a character below 127 is copied;                        *)
(*   - otherwise the FIRST rule of the list that matches supplies the replacement   *)
(*     and the number of characters consumed; the replacement is wrapped by the     *)
(*     rule's own protection scheme if it has one, else by the encoder's;           *)
(*   - if no rule matches, printable ASCII (32..127) and \n \r \t are copied;       *)
(*   - any other character follows unknown_char_policy.                             *)
(* Rules (records):                                                                  *)
(*   [t |-> "dict",  ent |-> Seq(<<codepoint, repl>>), prot]                        *)
(*   [t |-> "regex", ent |-> Seq(<<literal, repl [, left]>>), prot]  first alternative *)
(*                       whose literal is a prefix of the rest matches, consuming   *)
(*                       the literal                                                 *)
(*   [t |-> "call",  ent |-> Seq(<<literal, repl, consume>>), prot]   a callable    *)
(*                       that answers (consume, repl) when the rest starts with     *)
(*                       literal, None otherwise                                     *)
(*   [t |-> "nest",  ent |-> Seq(<<literal, inner, consume>>), prot]   a callable     *)
(*                       taking the encoder itself (u2lobj): when the rest starts     *)
(*                       with literal it answers (consume, "[" + the encoding of     *)
(*                       `inner` by the SAME encoder + "]") -- a nested run of the    *)
(*                       encoder while the outer run is in progress                   *)
(* prot = "" means "use the encoder's scheme".                                       *)
EXTENDS Integers, Sequences, FiniteSets, TLC

IsAsciiAlpha(c) == c \in (65..90) \cup (97..122)
RECURSIVE RFind(_, _, _)
RFind(x, c, i) == IF i = 0 THEN 0 ELSE IF x[i] = c THEN i ELSE RFind(x, c, i - 1)        \* 1-based index or 0
EndsInControlWord(r) == LET k == RFind(r, 92, Len(r)) IN
                        k > 0 /\ k < Len(r) /\ \A j \in (k + 1)..Len(r) : IsAsciiAlpha(r[j])
Protect(scheme, r) ==
    CASE scheme = "none" -> r
      [] scheme = "braces" -> IF EndsInControlWord(r) THEN <<123>> \o r \o <<125>> ELSE r
      [] scheme = "braces-almost-all" -> IF r # <<>> /\ r[1] = 92 THEN <<123>> \o r \o <<125>> ELSE r
      [] scheme = "braces-all" -> <<123>> \o r \o <<125>>
      [] scheme = "braces-after-macro" -> IF EndsInControlWord(r) THEN r \o <<123, 125>> ELSE r
      [] scheme = "fn-angle" -> <<60>> \o r \o <<62>>       \* a user-supplied callable (documented form of the option): r -> <r>

HexDigit(d) == IF d < 10 THEN 48 + d ELSE 55 + d
RECURSIVE HexUp(_)
HexUp(v) == IF v < 16 THEN <<HexDigit(v)>> ELSE HexUp(v \div 16) \o <<HexDigit(v % 16)>>
Hex4(v) == LET h == HexUp(v) IN [i \in 1..(IF Len(h) < 4 THEN 4 - Len(h) ELSE 0) |-> 48] \o h
Str(x) == x     \* sequences of code points are written directly by the harness

UNIHEX_PRE == <<92,101,110,115,117,114,101,109,97,116,104,123,92,108,97,110,103,108,101,125,92,116,101,120,116,116,116,123,85,43>>
UNIHEX_POST == <<125,92,101,110,115,117,114,101,109,97,116,104,123,92,114,97,110,103,108,101,125>>
REPLACE_TXT == <<123,92,98,102,115,101,114,105,101,115,32,63,125>>

StartsAt(s, p, lit) == p + Len(lit) - 1 <= Len(s) /\ \A k \in 1..Len(lit) : s[p + k - 1] = lit[k]     \* p 1-based

(* a regular expression is matched at position p of the WHOLE string (re.match(s, pos)): an assertion about   *)
(* what precedes p sees the real preceding character.  Optional third component of a regex entry:             *)
(*   <<"bos", {}>>   ^ / \A : only at the start of the string                                                 *)
(*   <<"in", S>>     (?<=[S]) : the preceding character exists and is in S                                     *)
(*   <<"notin", S>>  (?<![S]) or \b before a word character (S = word characters): none, or not in S          *)
LeftOK(r, e, s, p) ==
    IF r.t # "regex" \/ Len(e) < 3 THEN TRUE
    ELSE CASE e[3][1] = "bos" -> p = 1
           [] e[3][1] = "in" -> p > 1 /\ s[p - 1] \in e[3][2]
           [] e[3][1] = "notin" -> p = 1 \/ s[p - 1] \notin e[3][2]

(* result of trying rule r at 1-based position p: <<>> (no match) or <<repl, consumed>> *)
TryRule(r, s, p) ==
    IF r.t = "dict"
    THEN LET hits == { k \in DOMAIN r.ent : r.ent[k][1] = s[p] } IN
         IF hits = {} THEN <<>> ELSE << r.ent[CHOOSE k \in hits : TRUE][2], 1 >>
    ELSE LET hits == { k \in DOMAIN r.ent : StartsAt(s, p, r.ent[k][1]) /\ LeftOK(r, r.ent[k], s, p) } IN
         IF hits = {} THEN <<>>
         ELSE LET k == CHOOSE j \in hits : \A m \in hits : j <= m IN
              << r.ent[k][2], IF r.t = "regex" THEN Len(r.ent[k][1]) ELSE r.ent[k][3] >>      \* ("nest": the inner text)

RECURSIVE FirstMatch(_, _, _, _)
FirstMatch(rules, i, s, p) ==        \* <<>> or <<rule index, repl, consumed>>
    IF i > Len(rules) THEN <<>>
    ELSE LET m == TryRule(rules[i], s, p) IN
         IF m # <<>> THEN <<i, m[1], m[2]>> ELSE FirstMatch(rules, i + 1, s, p)

PassThrough(c) == (c >= 32 /\ c <= 127) \/ c \in {10, 13, 9}

(* cfg: [rules, scheme, policy, non_ascii_only]; result [ok, out, steps] / [ok |-> FALSE, at] *)
RECURSIVE Enc(_, _, _, _, _)
Enc(cfg, s, p, out, log) ==
    IF p > Len(s) THEN [ok |-> TRUE, out |-> out, log |-> log]
    ELSE LET c == s[p] IN
    IF cfg.non_ascii_only /\ c < 127 THEN Enc(cfg, s, p + 1, Append(out, c), Append(log, <<p, "skip">>))
    ELSE LET m == FirstMatch(cfg.rules, 1, s, p) IN
    IF m # <<>>
    THEN LET r == cfg.rules[m[1]]
             scheme == IF r.prot # "" THEN r.prot ELSE cfg.scheme
             \* a nested run has its own output and position; the outer run continues where it was
             inner == IF r.t = "nest" THEN Enc(cfg, m[2], 1, <<>>, <<>>) ELSE [ok |-> TRUE, out |-> <<>>]
             repl == IF r.t = "nest" THEN <<91>> \o inner.out \o <<93>> ELSE m[2]
         IN IF ~inner.ok THEN [ok |-> FALSE, at |-> p, out |-> out, log |-> Append(log, <<p, "rule", m[1]>>)]
            ELSE Enc(cfg, s, p + m[3], out \o Protect(scheme, repl), Append(log, <<p, "rule", m[1]>>))
    ELSE IF PassThrough(c) THEN Enc(cfg, s, p + 1, Append(out, c), Append(log, <<p, "copy">>))
    ELSE CASE cfg.policy = "keep" -> Enc(cfg, s, p + 1, Append(out, c), Append(log, <<p, "unknown">>))
           [] cfg.policy = "replace" -> Enc(cfg, s, p + 1, out \o REPLACE_TXT, Append(log, <<p, "unknown">>))
           [] cfg.policy = "ignore" -> Enc(cfg, s, p + 1, out, Append(log, <<p, "unknown">>))
           [] cfg.policy = "unihex" -> Enc(cfg, s, p + 1, out \o UNIHEX_PRE \o Hex4(c) \o UNIHEX_POST, Append(log, <<p, "unknown">>))
           [] cfg.policy = "fail" -> [ok |-> FALSE, at |-> p, out |-> out, log |-> Append(log, <<p, "unknown">>)]

(* NFC, as far as the model alphabet is concerned: a table of <<base, combining, composed>> *)
RECURSIVE Nfc(_, _)
Nfc(tab, s) ==
    IF Len(s) < 2 THEN s
    ELSE LET hits == { k \in DOMAIN tab : tab[k][1] = s[1] /\ tab[k][2] = s[2] } IN
         IF hits # {} THEN Nfc(tab, << tab[CHOOSE k \in hits : TRUE][3] >> \o SubSeq(s, 3, Len(s)))
         ELSE <<s[1]>> \o Nfc(tab, Tail(s))

Encode(cfg, nfctab, s) == Enc(cfg, Nfc(nfctab, s), 1, <<>>, <<>>)

(* ---- theorems of the rule semantics, checked by TLC on every generated configuration ---- *)
Unmatched(cfg, s) == { p \in 1..Len(s) : ~(cfg.non_ascii_only /\ s[p] < 127) /\ FirstMatch(cfg.rules, 1, s, p) = <<>>
                                          /\ ~PassThrough(s[p]) }
SingleCharRules(cfg) == \A i \in DOMAIN cfg.rules :
                           cfg.rules[i].t = "dict" \/ \A k \in DOMAIN cfg.rules[i].ent :
                                Len(cfg.rules[i].ent[k][1]) = 1 /\ (cfg.rules[i].t \in {"call", "nest"} => cfg.rules[i].ent[k][3] = 1)
                                /\ (cfg.rules[i].t = "regex" => Len(cfg.rules[i].ent[k]) = 2)      \* no assertion about the context
=============================================================================

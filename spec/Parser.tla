-------------------------------- MODULE Parser --------------------------------
(* Tier B reference model of pylatexenc's node parser, strict and tolerant:     *)
(*   Collect      LatexNodesCollector.process_tokens + LatexGeneralNodesParser    *)
(*   ParseGroup   LatexDelimitedGroupParser (also '[' 'r' 'd' standard args)      *)
(*   ParseMath    LatexMathParser                                                 *)
(*   ParseCall    LatexMacroCallParser / LatexEnvironmentCallParser /             *)
(*                LatexSpecialsCallParser                                         *)
(*   ParseArgs    LatexArgumentsParser: one standard argument parser per slot     *)
(*   ParseExpr    LatexExpressionParser (return_full_node_list = False)           *)
(*   Marker       LatexOptionalCharsMarkerParser ('*', 't<c>')                    *)
(*   VerbDelim    LatexDelimitedVerbatimParser ('v')                              *)
(*   LegacyVerb / LegacyVerbEnv   the pylatexenc-2 VerbatimArgsParser (\verb,     *)
(*                \begin{verbatim}) behind its wrapper                            *)
(* Big-step recursive operators in the call structure of the code; every         *)
(* operator carries `fuel`, so non-termination is the outcome "nonterm".          *)
(*                                                                                *)
(* Results.  Success: [ok |-> TRUE, v, pos] with `pos` the reader position        *)
(* afterwards and `v` a value:  [vk |-> "none"] (Python None), "node" (one node   *)
(* in ns) or "list" (node list ns).  Failure: [ok |-> FALSE, what, pos, rn,       *)
(* rpos, eos]: error kind and position (-1 = None), the recovery value carried    *)
(* by the exception, the reader position after recovery (recovery_at_token /      *)
(* recovery_past_token applied), and whether it is an end-of-stream condition.    *)
(* PC is LatexWalker.parse_content: end of stream becomes None; in tolerant mode  *)
(* (st.tol) a parse error becomes its recovery value.                             *)
EXTENDS Tokenizer

CONSTANTS MacroSig,      \* macro name -> Seq of argument records [k, delta, a, b, pre]
          EnvSig,        \* environment name -> [args : Seq of argument records, body : "nodes"|"math"|"legacyverb"]
          SpecSig,       \* specials chars -> Seq of argument records (names missing: no arguments)
          HasUnknownMacro, HasUnknownEnv,
          Sticky,        \* macro name -> record of parsing-state fields the macro sets for what FOLLOWS it in the same
                         \* group (a spec whose make_after_parsing_state_delta() returns a delta); names missing: none
          VMarker,       \* "intended" | "as_implemented" (repeated marker matching, end-of-stream after a match)
          VVerb,         \* "intended" | "as_implemented" (\verb at end of input)
          VPosNone       \* "intended" | "as_implemented" (error position None when nothing was collected)

NoneV == [vk |-> "none", ns |-> <<>>]
NodeV(n) == [vk |-> "node", ns |-> <<n>>]
ListV(ns) == [vk |-> "list", ns |-> ns]

OKr(v, p) == [ok |-> TRUE, v |-> v, pos |-> p]
Err(what, p, rn, rpos) == [ok |-> FALSE, what |-> what, pos |-> p, rn |-> rn, rpos |-> rpos, eos |-> FALSE]
Eos(rpos) == [ok |-> FALSE, what |-> "end_of_stream", pos |-> -1, rn |-> NoneV, rpos |-> rpos, eos |-> TRUE]

PC(r, st) == IF r.ok THEN r
             ELSE IF r.what = "nonterm" THEN r                \* fuel exhausted: not an outcome of the code, never recovered
             ELSE IF r.eos THEN OKr(NoneV, r.rpos)
             ELSE IF ~st.tol THEN r
             ELSE OKr(r.rn, r.rpos)

Node(k, pos, end, st) == [k |-> k, pos |-> pos, end |-> end, name |-> <<>>, delims |-> <<>>,
                          disp |-> "", args |-> <<>>, body |-> <<>>, hasbody |-> FALSE,
                          math |-> st.in_math, mdelim |-> st.mdelim, post |-> 0]

EnterMath(st, d) == [st EXCEPT !.in_math = TRUE, !.mdelim = d]
LeaveMath(st) == [st EXCEPT !.in_math = FALSE, !.mdelim = <<>>]
ApplyDelta(st, delta) == IF delta = "text" THEN LeaveMath(st) ELSE IF delta = "math" THEN EnterMath(st, <<>>) ELSE st
HasPair(st, a, b) == \E i \in DOMAIN st.groups : st.groups[i] = <<a, b>>
WithGroup(st, a, b) == IF HasPair(st, a, b) THEN st ELSE [st EXCEPT !.groups = Append(st.groups, <<a, b>>)]
(* dict(latex_group_delimiters)[open]: last pair wins *)
CloseOf(st, a) == LET hits == { i \in DOMAIN st.groups : st.groups[i][1] = a }
                  IN st.groups[CHOOSE j \in hits : \A k \in hits : k <= j][2]
IsMathOpen(st, d) == \E i \in DOMAIN Pairs(st) : Pairs(st)[i].open = d
MathCloseOf(st, d) == ByOpenOf(Pairs(st), d)[1].close

(* token as the parser sees it: in tolerant mode the reader turns a token error into its placeholder *)
TokP(s, p, st) == LET t == TokenAtF(s, p, st) IN IF t.t = "ERR" /\ st.tol THEN t.ph ELSE t

Flush(acc, pend, st) == IF pend = <<>> THEN acc ELSE Append(acc, Node("chars", pend[1], pend[2], st))
PendAdd(pend, a, b) == IF b <= a THEN pend ELSE IF pend = <<>> THEN <<a, b>> ELSE <<pend[1], b>>
FirstPos(nodes) == IF nodes # <<>> THEN nodes[1].pos ELSE -1

NoStop == [k |-> "none", arg |-> <<>>, tok |-> ""]
IsStop(stop, t) ==
    CASE stop.k = "none"  -> FALSE
      [] stop.k = "brace" -> t.t = "brace_close" /\ t.arg = stop.arg
      [] stop.k = "math"  -> t.t = stop.tok /\ t.arg = stop.arg
      [] stop.k = "env"   -> t.t = "end_environment" /\ t.arg = stop.arg
      [] stop.k = "mathany" -> t.t \in {"mathmode_inline", "mathmode_display"} /\ t.arg = stop.arg

(* make_child_parsing_state of the enclosing delimited-expression parser *)
SameChild == [mode |-> "same"]
ChildState(child, cur, t) ==
    IF child.mode = "same" THEN cur
    ELSE IF t.t = "brace_open" /\ t.arg = <<child.open>> THEN child.group ELSE child.outer

ArgRec(k, delta, a, b, pre) == [k |-> k, delta |-> delta, a |-> a, b |-> b, pre |-> pre]

RECURSIVE Collect(_, _, _, _, _, _, _, _, _)
RECURSIVE ParseGroup(_, _, _, _, _, _, _)
RECURSIVE ParseMath(_, _, _, _)
RECURSIVE ParseCall(_, _, _, _, _, _)
RECURSIVE ParseArgs(_, _, _, _, _, _)
RECURSIVE ParseArg(_, _, _, _, _)
RECURSIVE ParseExpr(_, _, _, _, _, _)

(* ---- LatexGeneralNodesParser + LatexNodesCollector ---------------------------- *)
(* p0: reader position when the parser started (fallback for the error position).  *)
(* Success value: ListV(nodes); the result also says whether a stop token was met.  *)
Collect(s, p0, p, st, stop, child, acc, pend, fuel) ==
  IF fuel = 0 THEN Err("nonterm", p, ListV(acc), p) ELSE
  LET t == TokP(s, p, st) IN
  IF t.t = "EOS" THEN
     IF t.final > 0
     THEN Collect(s, p0, p + t.final, st, stop, child, acc, PendAdd(pend, p, p + t.final), fuel - 1)
     ELSE LET nodes == Flush(acc, pend, st) IN
          IF stop.k = "none" THEN [ok |-> TRUE, v |-> ListV(nodes), pos |-> p]
          ELSE Err("stop_condition_not_met",
                   IF nodes # <<>> THEN nodes[1].pos ELSE IF VPosNone = "as_implemented" THEN -1 ELSE p0,
                   ListV(nodes), p)
  ELSE IF t.t = "ERR" THEN Err(t.what, t.pos, ListV(Flush(acc, pend, st)), p)       \* strict mode only
  ELSE LET tk == t IN
  IF IsStop(stop, tk) THEN
     [ok |-> TRUE, v |-> ListV(Flush(acc, PendAdd(pend, tk.pos - tk.pre, tk.pos), st)), pos |-> tk.pos_end]
  ELSE IF tk.t = "char" THEN
     Collect(s, p0, tk.pos_end, st, stop, child, acc, PendAdd(pend, tk.pos - tk.pre, tk.pos_end), fuel - 1)
  ELSE
  LET acc1 == IF pend # <<>> THEN Flush(acc, PendAdd(pend, tk.pos - tk.pre, tk.pos), st)
              ELSE IF tk.pre > 0 THEN Append(acc, Node("chars", tk.pos - tk.pre, tk.pos, st))
              ELSE acc
      cst == ChildState(child, st, tk)
      Cont(r) == \* continue after a child construct parsed through parse_content
                 IF ~r.ok THEN [r EXCEPT !.rn = ListV(acc1)]
                 ELSE Collect(s, p0, r.pos, st, stop, child,
                              IF r.v.vk = "none" THEN acc1 ELSE acc1 \o r.v.ns, <<>>, fuel - 1)
      \* after a state-changing macro the rest of THIS node list is read under the changed state; the change ends
      \* with the list (group, formula, environment body, argument)
      st2 == IF tk.t = "macro" /\ tk.arg \in DOMAIN Sticky
             THEN [f \in DOMAIN st |-> IF f \in DOMAIN Sticky[tk.arg] THEN Sticky[tk.arg][f] ELSE st[f]] ELSE st
      ContSticky(r) == IF ~r.ok THEN [r EXCEPT !.rn = ListV(acc1)]
                       ELSE Collect(s, p0, r.pos, st2, stop, child,
                                    IF r.v.vk = "none" THEN acc1 ELSE acc1 \o r.v.ns, <<>>, fuel - 1)
  IN
  IF tk.t = "brace_close" THEN Err("unexpected_closing_group", tk.pos, ListV(acc1), tk.pos_end)
  ELSE IF tk.t = "end_environment" THEN Err("unexpected_end_environment", tk.pos, ListV(acc1), tk.pos_end)
  ELSE IF tk.t \in {"mathmode_inline", "mathmode_display"} /\ ~IsMathOpen(st, tk.arg)
       THEN Err("unexpected_closing_math", tk.pos, ListV(acc1), tk.pos_end)
  ELSE IF tk.t = "comment" THEN
       Collect(s, p0, tk.pos_end, st, stop, child,
               Append(acc1, [Node("comment", tk.pos, tk.pos_end, st) EXCEPT !.post = tk.post]), <<>>, fuel - 1)
  ELSE IF tk.t = "brace_open" THEN
       Cont(PC(ParseGroup(s, tk.pos, cst, tk.arg, FALSE, FALSE, fuel - 1), st))
  ELSE IF tk.t \in {"mathmode_inline", "mathmode_display"} THEN
       Cont(PC(ParseMath(s, tk, cst, fuel - 1), st))
  ELSE IF tk.t = "macro" THEN
       IF tk.arg \notin DOMAIN MacroSig /\ ~HasUnknownMacro
       THEN (IF st.tol THEN Collect(s, p0, tk.pos_end, st, stop, child, acc1, <<>>, fuel - 1)     \* node dropped
             ELSE Err("unknown_macro", tk.pos, ListV(acc1), tk.pos_end))
       ELSE ContSticky(PC(ParseCall(s, tk, "macro", cst, st, fuel - 1), st))
  ELSE IF tk.t = "begin_environment" THEN
       IF tk.arg \notin DOMAIN EnvSig /\ ~HasUnknownEnv
       THEN (IF st.tol THEN Collect(s, p0, tk.pos_end, st, stop, child, acc1, <<>>, fuel - 1)
             ELSE Err("unknown_environment", tk.pos, ListV(acc1), tk.pos_end))
       ELSE Cont(PC(ParseCall(s, tk, "env", cst, st, fuel - 1), st))
  ELSE IF tk.t = "specials" THEN
       Cont(PC(ParseCall(s, tk, "specials", cst, st, fuel - 1), st))
  ELSE Err("unknown_token", tk.pos, ListV(acc1), tk.pos_end)

(* ---- LatexDelimitedGroupParser -------------------------------------------------- *)
(* delims = <<a>> (string: closing delimiter looked up) or <<a, b>> (pair given)      *)
ParseGroup(s, p, st, delims, opt, allowpre, fuel) ==
  IF fuel = 0 THEN Err("nonterm", p, NoneV, p) ELSE
  LET a == delims[1]
      gst == IF Len(delims) = 1 THEN st ELSE WithGroup(st, delims[1], delims[2])
      b == IF Len(delims) = 2 THEN delims[2] ELSE CloseOf(gst, a)
      t == TokP(s, p, gst)
  IN IF t.t = "EOS" THEN Eos(p)
     ELSE IF t.t = "ERR" THEN Err(t.what, t.pos, NoneV, p)
     ELSE IF ~(t.t = "brace_open" /\ t.arg = <<a>> /\ (allowpre \/ t.pre = 0)) THEN
          (IF opt THEN OKr(NoneV, t.pos - t.pre)
           ELSE Err("expected_opening_delimiter", t.pos, ListV(<<>>), t.pos - t.pre))
     ELSE LET r == PC(Collect(s, t.pos_end, t.pos_end, gst, [k |-> "brace", arg |-> <<b>>, tok |-> ""],
                              [mode |-> "group", open |-> a, group |-> gst, outer |-> st],
                              <<>>, <<>>, fuel - 1), st)
          IN IF ~r.ok THEN r
             ELSE OKr(NodeV([Node("group", t.pos, r.pos, gst) EXCEPT
                                 !.delims = << <<a>>, <<b>> >>,
                                 !.body = r.v.ns, !.hasbody = r.v.vk # "none"]), r.pos)

(* ---- LatexMathParser (t: the opening delimiter token, already read by the collector) *)
ParseMath(s, t, pst, fuel) ==
  IF fuel = 0 THEN Err("nonterm", t.pos, NoneV, t.pos) ELSE
  LET mst == EnterMath(pst, t.arg)
      close == MathCloseOf(mst, t.arg)
      r == PC(Collect(s, t.pos_end, t.pos_end, mst, [k |-> "math", arg |-> close, tok |-> t.t], SameChild,
                      <<>>, <<>>, fuel - 1), pst)
  IN IF ~r.ok THEN r
     ELSE OKr(NodeV([Node("math", t.pos, r.pos, pst) EXCEPT
                        !.delims = <<t.arg, close>>,
                        !.disp = IF t.t = "mathmode_inline" THEN "inline" ELSE "display",
                        !.body = r.v.ns, !.hasbody = r.v.vk # "none"]), r.pos)

(* ---- the pylatexenc-2 VerbatimArgsParser behind _LegacyPyltxenc2MacroArgsParserWrapper *)
RECURSIVE SkipSpaceIdx(_, _)
SkipSpaceIdx(s, p) == IF p < Len(s) /\ IsSpace(At(s, p)) THEN SkipSpaceIdx(s, p + 1) ELSE p
LegacyVerb(s, p, st) ==          \* arguments of \verb: returns the ParsedArguments value (one chars node)
  LET q == SkipSpaceIdx(s, p) IN
  IF q >= Len(s)
  THEN (IF VVerb = "as_implemented" THEN Err("IndexError", -2, NoneV, p)
        ELSE Err("verb_missing_argument", Len(s), NoneV, p))
  ELSE LET d == At(s, q)
           e == FindChar(s, q + 1, d)
       IN IF e >= Len(s) THEN Err("verb_end_of_stream", q, NoneV, p)
          ELSE OKr(ListV(<< NodeV(Node("chars", q + 1, e, st)) >>), e + 1)
RECURSIVE FindSeq(_, _, _)
FindSeq(s, p, d) == IF p + Len(d) > Len(s) THEN Len(s) + 1
                    ELSE IF StartsWith(s, p, d) THEN p ELSE FindSeq(s, p + 1, d)
LegacyVerbEnv(s, p, st, name) ==
  LET e == FindSeq(s, p, <<92>> \o END_ \o <<123>> \o name \o <<125>>)
  IN IF e > Len(s) THEN Err("verbenv_no_end", p, NoneV, p)
     ELSE OKr(ListV(<< NodeV(Node("chars", p, e, st)) >>), e)

(* ---- LatexOptionalCharsMarkerParser(chars_list = [c]) ---------------------------- *)
(* full = return_full_node_list                                                       *)
RECURSIVE MarkerMore(_, _, _, _, _, _, _, _)
MarkerMore(s, p, st, c, allowpre, full, got, fuel) ==      \* as_implemented: keeps matching after the first match
  IF fuel = 0 THEN Err("nonterm", p, NoneV, p) ELSE
  LET t == TokP(s, p, st) IN
  IF t.t = "EOS" THEN Eos(p)                                \* peek_token raises end of stream: everything is lost
  ELSE IF t.t = "ERR" THEN Err(t.what, t.pos, NoneV, p)
  ELSE IF t.t \in {"char", "specials"} /\ t.arg = <<c>> /\ (allowpre \/ t.pre = 0)
       THEN MarkerMore(s, t.pos_end, st, c, allowpre, full, Append(got, Node("chars", t.pos, t.pos_end, st)), fuel - 1)
       ELSE OKr(IF full THEN ListV(got) ELSE NodeV(got[1]), p)
Marker(s, p, st, c, allowpre, full, fuel) ==
  LET t == TokP(s, p, st) IN
  IF t.t = "EOS" THEN (IF VMarker = "as_implemented" THEN Eos(p) ELSE OKr(NoneV, p))
  ELSE IF t.t = "ERR" THEN Err(t.what, t.pos, NoneV, p)
  ELSE IF t.t \in {"char", "specials"} /\ t.arg = <<c>> /\ (allowpre \/ t.pre = 0)
       THEN (IF VMarker = "as_implemented"
             THEN MarkerMore(s, t.pos_end, st, c, allowpre, full, << Node("chars", t.pos, t.pos_end, st) >>, fuel)
             ELSE OKr(IF full THEN ListV(<< Node("chars", t.pos, t.pos_end, st) >>)
                      ELSE NodeV(Node("chars", t.pos, t.pos_end, st)), t.pos_end))
       ELSE OKr(NoneV, p)

(* ---- LatexDelimitedVerbatimParser(delimiters = None) ------------------------------ *)
AutoClose(o) == IF o = 123 THEN 125 ELSE IF o = 91 THEN 93 ELSE IF o = 60 THEN 62 ELSE IF o = 40 THEN 41 ELSE o
RECURSIVE VerbScan(_, _, _, _, _)
VerbScan(s, p, o, c, depth) ==      \* position of the closing delimiter, or Len(s) if the stream ends first
  IF p >= Len(s) THEN Len(s)
  ELSE IF At(s, p) = c THEN (IF depth - 1 <= 0 THEN p ELSE VerbScan(s, p + 1, o, c, depth - 1))
  ELSE IF At(s, p) = o THEN VerbScan(s, p + 1, o, c, depth + 1)
  ELSE VerbScan(s, p + 1, o, c, depth)
VerbDelim(s, p, st) ==
  LET q == SkipSpaceIdx(s, p) IN
  IF q >= Len(s) THEN Eos(q)
  ELSE LET o == At(s, q)
           c == AutoClose(o)
           e == VerbScan(s, q + 1, o, c, 1)
       IN IF e >= Len(s)
          THEN Err("verbatim_end_of_stream", Len(s), NodeV(Node("chars", q + 1, Len(s), st)), Len(s))
          ELSE OKr(NodeV([Node("group", q, e + 1, st) EXCEPT !.delims = << <<o>>, <<c>> >>,
                            !.body = << Node("chars", q + 1, e, st) >>, !.hasbody = TRUE]), e + 1)

(* ---- one argument slot: LatexStandardArgumentParser -> parse_content(inner parser) -- *)
ParseArg(s, p, arg, ast, fuel) ==
  CASE arg.k = "m" -> ParseExpr(s, p, ast, arg.pre, NoneV, fuel)
    [] arg.k = "o" -> ParseGroup(s, p, ast, <<91, 93>>, TRUE, arg.pre, fuel)
    [] arg.k = "s" -> Marker(s, p, ast, 42, arg.pre, FALSE, fuel)
    [] arg.k = "t" -> Marker(s, p, ast, arg.a, arg.pre, TRUE, fuel)
    [] arg.k = "r" -> ParseGroup(s, p, ast, <<arg.a, arg.b>>, FALSE, arg.pre, fuel)
    [] arg.k = "d" -> ParseGroup(s, p, ast, <<arg.a, arg.b>>, TRUE, arg.pre, fuel)
    [] arg.k = "v" -> VerbDelim(s, p, ast)

(* ---- LatexArgumentsParser ------------------------------------------------------------ *)
(* value: ListV of the slot values (each itself a value)                                  *)
ParseArgs(s, p, sig, j, pst, fuel) ==
  IF j > Len(sig) THEN OKr(ListV(<<>>), p)
  ELSE IF fuel = 0 THEN Err("nonterm", p, NoneV, p) ELSE
  LET arg == sig[j]
      pk == TokP(s, p, pst)                      \* peek_token_or_none before every slot
  IN IF pk.t = "ERR" THEN Err(pk.what, pk.pos, NoneV, p)
     ELSE LET r == PC(ParseArg(s, p, arg, ApplyDelta(pst, arg.delta), fuel - 1), pst) IN
          IF ~r.ok THEN r
          ELSE LET rest == ParseArgs(s, r.pos, sig, j + 1, pst, fuel - 1) IN
               IF ~rest.ok THEN rest ELSE OKr(ListV(<< r.v >> \o rest.v.ns), rest.pos)

(* ---- macro / environment / specials call ------------------------------------------------ *)
ParseCall(s, t, kind, pst, cur, fuel) ==
  IF fuel = 0 THEN Err("nonterm", t.pos, NoneV, t.pos) ELSE
  LET sig == IF kind = "macro" THEN (IF t.arg \in DOMAIN MacroSig THEN MacroSig[t.arg] ELSE <<>>)
             ELSE IF kind = "env" THEN (IF t.arg \in DOMAIN EnvSig THEN EnvSig[t.arg].args ELSE <<>>)
             ELSE (IF t.arg \in DOMAIN SpecSig THEN SpecSig[t.arg] ELSE <<>>)
      body == IF kind = "env" /\ t.arg \in DOMAIN EnvSig THEN EnvSig[t.arg].body ELSE "nodes"
      a == IF sig # <<>> /\ sig[1].k = "verb" THEN PC(LegacyVerb(s, t.pos_end, pst), pst)
           ELSE IF body = "legacyverb" THEN PC(LegacyVerbEnv(s, t.pos_end, pst, t.arg), pst)
           ELSE PC(ParseArgs(s, t.pos_end, sig, 1, pst, fuel - 1), pst)
  IN IF ~a.ok THEN a
     ELSE LET hasargs == a.v.vk # "none"
              args == IF hasargs THEN a.v.ns ELSE <<>>
          IN IF kind = "macro"
             THEN OKr(NodeV([Node("macro", t.pos, a.pos, pst) EXCEPT !.name = t.arg, !.args = args, !.post = t.post]), a.pos)
             ELSE IF kind = "specials"
             THEN OKr(NodeV([Node("specials", t.pos, a.pos, pst) EXCEPT !.name = t.arg, !.args = args]), a.pos)
             ELSE LET bst == IF body = "math" THEN EnterMath(pst, <<>>) ELSE pst
                      r == PC(Collect(s, a.pos, a.pos, bst, [k |-> "env", arg |-> t.arg, tok |-> ""], SameChild,
                                      <<>>, <<>>, fuel - 1), pst)
                  IN IF ~r.ok THEN r
                     ELSE OKr(NodeV([Node("env", t.pos, r.pos, pst) EXCEPT !.name = t.arg, !.args = args,
                                       !.body = r.v.ns, !.hasbody = TRUE]), r.pos)

(* ---- LatexExpressionParser(return_full_node_list = False) --------------------------------- *)
(* last: the last skipped whitespace / comment node (returned in tolerant mode if the stream ends) *)
ParseExpr(s, p, st, allowpre, last, fuel) ==
  IF fuel = 0 THEN Err("nonterm", p, NoneV, p) ELSE
  LET est == [st EXCEPT !.en_envs = FALSE]
      t == TokP(s, p, est)
      EmptyGroup(q) == NodeV([Node("group", q, q, st) EXCEPT !.delims = << <<>>, <<>> >>, !.hasbody = TRUE])
  IN
  IF t.t = "EOS" THEN
       (IF st.tol THEN OKr(IF last = NoneV THEN EmptyGroup(p) ELSE last, p) ELSE Err("expr_end_of_stream", p, NoneV, p))
  ELSE IF t.t = "ERR" THEN Err(t.what, t.pos, NoneV, p)
  ELSE IF t.t = "macro" THEN
       IF t.arg \in {BEGIN, END_} THEN
            (IF st.tol THEN OKr(NodeV([Node("macro", t.pos, t.pos_end, st) EXCEPT !.name = t.arg, !.post = t.post]), t.pos_end)
             ELSE Err("expr_beginend", t.pos, NoneV, t.pos_end))
       ELSE IF t.arg \notin DOMAIN MacroSig /\ ~HasUnknownMacro THEN Err("AttributeError", -2, NoneV, t.pos_end)
       ELSE OKr(NodeV([Node("macro", t.pos, t.pos_end, st) EXCEPT !.name = t.arg, !.post = t.post]), t.pos_end)
  ELSE IF t.t = "specials" THEN
       OKr(NodeV([Node("specials", t.pos, t.pos_end, st) EXCEPT !.name = t.arg]), t.pos_end)
  ELSE IF t.pre > 0 THEN
       (IF allowpre THEN ParseExpr(s, t.pos, st, allowpre, NodeV(Node("chars", t.pos - t.pre, t.pos, st)), fuel - 1)
        ELSE IF st.tol THEN ParseExpr(s, t.pos_end, st, allowpre, last, fuel - 1)      \* (the token itself is lost)
        ELSE Err("expr_whitespace", t.pos - t.pre, NoneV, t.pos_end))
  ELSE IF t.t = "comment" THEN
       (IF allowpre THEN ParseExpr(s, t.pos_end, st, allowpre,
                                   NodeV([Node("comment", t.pos, t.pos_end, st) EXCEPT !.post = t.post]), fuel - 1)
        ELSE IF st.tol THEN ParseExpr(s, t.pos_end, st, allowpre, last, fuel - 1)
        ELSE Err("expr_comment", t.pos, NoneV, t.pos_end))
  ELSE IF t.t = "brace_open" THEN PC(ParseGroup(s, t.pos, st, t.arg, FALSE, FALSE, fuel - 1), st)
  ELSE IF t.t = "brace_close" THEN
       Err("expr_closing_group", t.pos, NodeV(Node("chars", t.pos, t.pos, st)), t.pos)
  ELSE IF t.t = "char" THEN OKr(NodeV(Node("chars", t.pos, t.pos_end, st)), t.pos_end)
  ELSE \* math mode delimiter
       Err("expr_math_delimiter", t.pos,
           IF t.arg[1] = 92 THEN NodeV([Node("macro", t.pos, t.pos_end, st) EXCEPT !.name = t.arg])
           ELSE NodeV(Node("chars", t.pos, t.pos_end, st)), t.pos_end)

(* ---- whole document: LatexWalker.parse_content(LatexGeneralNodesParser()) ------------------- *)
Fuel(s) == 4 * Len(s) + 10
ParseDoc(s, st) == PC(Collect(s, 0, 0, st, NoStop, SameChild, <<>>, <<>>, Fuel(s)), st)
=============================================================================

------------------------------- MODULE DocCheck -------------------------------
(* Composition of the document writer with the reference parser.  TLC checks, for *)
(* every written document: an unfaulted document is accepted by the strict         *)
(* reference parser and parses to the structure it was written with (C02 on the    *)
(* model); a document with one injected structural fault is rejected (C05).        *)
(* Finished behaviours are printed for replay into the implementation.             *)
EXTENDS DocWriter, Json

CONSTANTS MacroSig, EnvSig, SpecSig, HasUnknownMacro, HasUnknownEnv, Sticky, St0, EmitFaulted, EmitPlain

P == INSTANCE Parser WITH VTok <- "intended", VMarker <- "intended", VVerb <- "intended", VPosNone <- "intended"

Parsed == P!ParseDoc(src, St0)
WellFormedAccepted == (done /\ ~faulted) => Parsed.ok
FaultRejected == (done /\ faulted) => ~Parsed.ok

Emit == (done /\ ((faulted /\ EmitFaulted) \/ (~faulted /\ EmitPlain))) =>
          PrintT(ToJson([src |-> src, tree |-> Tree, faulted |-> faulted]))
=============================================================================

------------------------------- MODULE RoundTrip -------------------------------
(* C08 -- encode to LaTeX, convert back to text: the identity on the invertible     *)
(* alphabet.  Composition Encoder ; Parser ; L2T over representatives of the         *)
(* character classes defined by the shape of the table entry (plain letter, other    *)
(* ASCII, space, newline, escaped symbol \X, control word, accent + letter, accent   *)
(* with braced argument, \ensuremath{..}, tie).  The neighbour effects -- control     *)
(* word followed by a letter or a space, accent followed by a letter, post-space      *)
(* eaten on the way back, braces added by the protection scheme -- are decided here   *)
(* for every string of class representatives, scheme and whitespace policy.           *)
(* The ASCII ligature pairs (-- `` '' !` ?`) are excluded from the inputs.            *)
EXTENDS Encoder, Json

CONSTANTS Reps,          \* sequence of representative code points
          K, Shard, Cfgs, PolNames, St0, Ligatures,
          MacroSig, EnvSig, SpecSig, HasUnknownMacro, HasUnknownEnv, Sticky,
          MacroText, EnvText, SpecialsText, NfcTab

L == INSTANCE L2T WITH VTok <- "intended", VMarker <- "intended", VVerb <- "intended", VPosNone <- "intended"

VARIABLES s, ci, pol, enc, dec, done
vars == <<s, ci, pol, enc, dec, done>>

(* a whitespace run with two or more newlines is a paragraph break; latex2text renders it as exactly   *)
(* "\n\n" -- recorded as a known finding of C08, such runs other than "\n\n" itself are not generated  *)
IsWs(c) == c \in {32, 10, 9, 160} /\ c # 160
RunOK(w, i, j) ==   \* maximal whitespace run w[i..j]
    \* fewer than two newlines, or exactly two adjacent ones (blanks before the first / after the last newline are kept)
    LET nl == { k \in i..j : w[k] = 10 } IN
    Cardinality(nl) < 2 \/ (Cardinality(nl) = 2 /\ \E k \in nl : k + 1 \in nl)
NoOddParagraph(w) == \A i \in 1..Len(w), j \in 1..Len(w) :
    (i <= j /\ (\A k \in i..j : IsWs(w[k])) /\ (i = 1 \/ ~IsWs(w[i - 1])) /\ (j = Len(w) \/ ~IsWs(w[j + 1]))) => RunOK(w, i, j)
NoLigature(w) == \A i \in 1..(Len(w) - 1) : <<w[i], w[i + 1]>> \notin Ligatures
Opts == [keep_comments |-> FALSE, keep_braced_groups |-> FALSE, math_mode |-> "text"]

Init == /\ IF Shard = 0 THEN s = <<>>
           ELSE \E n \in 0..(K - 1) : \E sq \in [1..n -> 1..Len(Reps)] :
                  s = <<Reps[Shard]>> \o [i \in 1..n |-> Reps[sq[i]]]
        /\ NoLigature(s) /\ NoOddParagraph(s)
        /\ ci \in DOMAIN Cfgs /\ pol \in PolNames /\ enc = <<>> /\ dec = <<"?">> /\ done = FALSE
Next == /\ ~done /\ done' = TRUE /\ UNCHANGED <<s, ci, pol>>
        /\ LET e == Enc(Cfgs[ci], s, 1, <<>>, <<>>).out
               p == L!ParseDoc(e, St0)                     \* latex_to_text parses in tolerant mode
           IN /\ enc' = e
              /\ dec' = IF p.ok /\ p.v.vk = "list" THEN L!Render(e, p.v.ns, pol, Opts) ELSE <<"parse failed">>
Spec == Init /\ [][Next]_vars

RoundTripIdentity == done => dec = s
Emit == done => PrintT(ToJson([s |-> s, ci |-> ci, pol |-> pol, enc |-> enc, dec |-> dec]))
=============================================================================

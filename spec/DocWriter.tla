------------------------------ MODULE DocWriter ------------------------------
(* Generator of well-formed LaTeX documents together with the structure they     *)
(* were written with -- the oracle of C02 (and the source of documents for C03,   *)
(* C05 fault injection, C07, C12, C16).  The writer never looks at tokens: it      *)
(* appends source text construct by construct and records, in a stack of open      *)
(* frames, the abstract tree *as written*:                                         *)
(*     node == [k, name, delims, args, body]                                       *)
(*     k \in {"chars","comment","group","math","macro","env","specials","par",     *)
(*            "verb"};  args: one entry per declared slot, <<>> = absent,          *)
(*            <<node>> = the argument that was written.                            *)
(* LaTeX's own rules are enabling conditions, not post-filters:                    *)
(*   - a control word is never directly followed by a letter;                      *)
(*   - after an absent optional slot ('[', '*', t<c>, d<c1c2>) the next non-space  *)
(*     character is not the slot's opening character;                              *)
(*   - no paragraph break between a call and its arguments; no whitespace before   *)
(*     the bracket argument of the line-break macro (slot with pre = FALSE): with  *)
(*     whitespace the slot is absent;                                              *)
(*   - a closing $ is not directly followed by $ ; "--" is not followed by "-";    *)
(*   - no math inside math; a single-token argument never needs arguments itself.  *)
(* At most one InjectFault (an unmatched structural token) per behaviour.          *)
EXTENDS Integers, Sequences, FiniteSets, TLC

CONSTANTS MaxActs,
          WMacros,      \* set of <<name, sig>>: sig a sequence of argument records [k, delta, a, b, pre]
          WEnvs,        \* set of <<name, sig, body>>: body \in {"nodes", "math", "legacyverb"}
          WSpecials,    \* set of specials sequences usable as content (without arguments)
          ArglessMacros,\* names of macros without arguments usable as single-token arguments
          Features,     \* subset of {"group","math","display","comment","par","space","fault","commenteof","argtoken"}
          Faults,       \* set of fault token texts (sequences of code points)
          DiscardMacros \* names of macros / environments whose conversion to text discards them with their arguments and body (C12 markers)

VARIABLES src, stk, last, forbid, forbidnow, n, mk, done, faulted
vars == <<src, stk, last, forbid, forbidnow, n, mk, done, faulted>>

N(k, name, delims, args, body) == [k |-> k, name |-> name, delims |-> delims, args |-> args, body |-> body]
F(k, name, sig, delims, bodykind) == [k |-> k, name |-> name, sig |-> sig, args |-> <<>>, body |-> <<>>,
                                      delims |-> delims, bodykind |-> bodykind]
Top == stk[Len(stk)]
InArgs == Top.k \in {"call", "envcall"} /\ Len(Top.args) < Len(Top.sig)
Slot == Top.sig[Len(Top.args) + 1]
CanContent == ~InArgs /\ Top.k # "call"
(* frames that fix the mode of what is written inside them: formulas, math environments, and braced arguments  *)
(* of a slot with a declared mode (\text{..} inside a formula is text again; feature "textinmath")              *)
ModeFrames == { i \in 1..Len(stk) : \/ stk[i].k = "math"
                                    \/ (stk[i].k \in {"env", "envcall"} /\ stk[i].bodykind = "math")
                                    \/ ("textinmath" \in Features /\ stk[i].k = "arggroup" /\ stk[i].bodykind \in {"text", "math"}) }
InMath == IF ModeFrames = {} THEN FALSE
          ELSE LET i == CHOOSE k \in ModeFrames : \A m \in ModeFrames : m <= k IN
               ~(stk[i].k = "arggroup" /\ stk[i].bodykind = "text")
(* also: the ARGUMENTS of an environment whose conversion drops them (\begin{array}{cc}: the column specification), *)
(* written as names "args:<environment>" in DiscardMacros                                                          *)
ArgsOf(nm) == <<97, 114, 103, 115, 58>> \o nm
InDiscard == \E i \in 1..Len(stk) : \/ (stk[i].k \in {"call", "env", "envcall"} /\ stk[i].name \in DiscardMacros)
                                     \/ (stk[i].k \in {"envcall", "call"} /\ ArgsOf(stk[i].name) \in DiscardMacros)
AddChild(c) == [stk EXCEPT ![Len(stk)].body = Append(@, c)]
Letter(c) == c \in (65..90) \cup (97..122)

(* a completed macro call is popped into its parent; a completed envcall becomes an open environment body *)
RECURSIVE Settle(_)
Settle(st) ==
    LET t == st[Len(st)] IN
    IF t.k = "call" /\ Len(t.args) = Len(t.sig) /\ Len(st) > 1
    THEN LET node == N("macro", t.name, <<>>, t.args, <<>>)
             up == SubSeq(st, 1, Len(st) - 1)
         IN Settle([up EXCEPT ![Len(up)].body = Append(@, node)])
    ELSE IF t.k = "envcall" /\ Len(t.args) = Len(t.sig)
    THEN [st EXCEPT ![Len(st)].k = "env"]
    ELSE st
PutArg(a) == Settle([stk EXCEPT ![Len(stk)].args = Append(@, a)])

(* may text starting with character c be written now? *)
OkFirst(c) == /\ c \notin forbid /\ c \notin forbidnow
              /\ (last = "cw" => ~Letter(c))
              /\ (last = "dollar" => c # 36)
              /\ (last = "dash2" => c # 45)
Write(text, newstk, l) ==
    /\ OkFirst(text[1])
    /\ src' = src \o text /\ stk' = newstk /\ last' = l /\ forbid' = {} /\ forbidnow' = {}
    /\ n' = n + 1 /\ UNCHANGED <<done, faulted>>
Digit == <<48 + (mk % 10)>>

(* ---- content -------------------------------------------------------------------------- *)
Text == /\ CanContent
        /\ LET w == IF InDiscard THEN <<100>> \o Digit ELSE IF InMath THEN <<120>> \o Digit ELSE <<97>> IN
           Write(w, AddChild(N("chars", w, <<>>, <<>>, <<>>)), "text")
        /\ mk' = IF InMath \/ InDiscard THEN mk + 1 ELSE mk
(* "[a]" written as plain text (not an argument): where no optional-argument group is open, or where a brace  *)
(* group (a group or a braced argument) opened inside the innermost optional argument protects the brackets,    *)
(* as in LaTeX: \section[\textbf{[a]}]{T}                                                                        *)
BracketProtected == LET opts == { i \in 1..Len(stk) : stk[i].k = "optgroup" } IN
                    IF opts = {} THEN TRUE
                    ELSE LET i == CHOOSE k \in opts : \A m \in opts : m <= k IN
                         \E j \in (i + 1)..Len(stk) : stk[j].k \in {"group", "arggroup"}
BracketText == /\ "bracket" \in Features /\ CanContent /\ ~InMath
               /\ BracketProtected
               /\ Write(<<91, 97, 93>>, AddChild(N("chars", <<91, 97, 93>>, <<>>, <<>>, <<>>)), "sym") /\ UNCHANGED mk
Space == /\ "space" \in Features /\ last \notin {"space", "start"}
         /\ src' = src \o <<32>> /\ last' = "space" /\ forbidnow' = {}
         /\ n' = n + 1 /\ UNCHANGED <<stk, forbid, mk, done, faulted>>
Par == /\ "par" \in Features /\ CanContent /\ ~InMath /\ last \notin {"start", "space"}
       /\ src' = src \o <<10, 10>> /\ last' = "space" /\ forbidnow' = {}
       /\ stk' = AddChild(N("par", <<>>, <<>>, <<>>, <<>>))
       /\ n' = n + 1 /\ UNCHANGED <<forbid, mk, done, faulted>>
Comment == /\ "comment" \in Features /\ ~InMath /\ ~InDiscard
           /\ (CanContent \/ (InArgs /\ Slot.k = "m" /\ Slot.pre /\ Top.k = "call"))
           /\ LET w == IF "emptycomment" \in Features /\ mk % 2 = 0 THEN <<>> ELSE <<99>> \o Digit IN    \* "%" + newline: an empty comment
              /\ OkFirst(37)
              /\ src' = src \o <<37>> \o w \o <<10>>
              /\ stk' = IF CanContent THEN AddChild(N("comment", w, <<>>, <<>>, <<>>)) ELSE stk
           /\ last' = "space" /\ forbidnow' = {} /\ mk' = mk + 1
           /\ n' = n + 1 /\ UNCHANGED <<forbid, done, faulted>>
Special(sp) == /\ CanContent
               /\ Write(sp, AddChild(N("specials", sp, <<>>, <<>>, <<>>)), IF sp = <<45, 45>> THEN "dash2" ELSE "sym")
               /\ UNCHANGED mk
OpenGroup == /\ "group" \in Features /\ CanContent
             /\ Write(<<123>>, Append(stk, F("group", <<>>, <<>>, <<123, 125>>, "")), "sym") /\ UNCHANGED mk
CloseFrame(kinds, closetext, l) ==
    /\ Top.k \in kinds /\ CanContent
    /\ LET up == SubSeq(stk, 1, Len(stk) - 1)
           node == IF Top.k = "math"
                   THEN N("math", <<Top.name[1], Len(src) + Len(closetext)>>, Top.delims, <<>>, Top.body)
                   ELSE N("group", <<>>, Top.delims, <<>>, Top.body)
       IN IF Top.k \in {"arggroup", "optgroup", "delimgroup"}
          THEN Write(closetext, Settle([up EXCEPT ![Len(up)].args = Append(@, <<node>>)]), l)
          ELSE Write(closetext, [up EXCEPT ![Len(up)].body = Append(@, node)], l)
    /\ UNCHANGED mk
CloseGroup == CloseFrame({"group", "arggroup"}, <<125>>, "sym")
CloseOpt == Top.k = "optgroup" /\ CloseFrame({"optgroup"}, <<93>>, "sym")
CloseDelim == Top.k = "delimgroup" /\ CloseFrame({"delimgroup"}, <<Top.delims[2]>>, "sym")
MathDelims == { << <<36>>, <<36>> >>, << <<92, 40>>, <<92, 41>> >> } \cup
              (IF "display" \in Features THEN { << <<92, 91>>, <<92, 93>> >>, << <<36, 36>>, <<36, 36>> >> } ELSE {})
OpenMath(d) == /\ "math" \in Features /\ CanContent /\ ~InMath /\ ~InDiscard
               /\ (d[1][1] = 36 => last # "dollar")
               /\ Write(d[1], Append(stk, F("math", <<Len(src)>>, <<>>, d, "")), "sym") /\ UNCHANGED mk
CloseMath == /\ Top.k = "math" /\ Top.body # <<>>
             /\ CloseFrame({"math"}, Top.delims[2], IF Top.delims[2][1] = 36 THEN "dollar" ELSE "sym")

(* ---- calls ------------------------------------------------------------------------------ *)
Call(m) == /\ CanContent
           /\ ~(InMath /\ \E i \in 1..Len(m[2]) : m[2][i].delta = "math")
           /\ (m[1] \in DiscardMacros \/ ArgsOf(m[1]) \in DiscardMacros => ~InMath)      \* (a formula shown verbatim would show the discarded construct)
           /\ LET iscw == Letter(m[1][1]) IN
              Write(<<92>> \o m[1], Settle(Append(stk, F("call", m[1], m[2], <<>>, ""))), IF iscw THEN "cw" ELSE "sym")
           /\ UNCHANGED mk
BeginEnv(e) == /\ CanContent /\ ~(InMath /\ e[3] = "math") /\ e[3] # "legacyverb"
               /\ (e[3] = "math" => ~InDiscard)
               /\ (e[1] \in DiscardMacros => ~InMath /\ e[3] # "math")
               /\ (ArgsOf(e[1]) \in DiscardMacros => ~InMath)     \* (a formula shown verbatim would show the dropped arguments)
               /\ Write(<<92, 98, 101, 103, 105, 110, 123>> \o e[1] \o <<125>>,
                        Settle(Append(stk, F("envcall", e[1], e[2], <<Len(src)>>, e[3]))), "sym")
               /\ UNCHANGED mk
EndEnv == /\ Top.k = "env" /\ CanContent
          /\ LET up == SubSeq(stk, 1, Len(stk) - 1)
                 node == N("env", Top.name, <<Top.delims[1], Len(src) + 6 + Len(Top.name)>>, Top.args, Top.body)
             IN Write(<<92, 101, 110, 100, 123>> \o Top.name \o <<125>>, [up EXCEPT ![Len(up)].body = Append(@, node)], "sym")
          /\ UNCHANGED mk
VerbTexts == { <<97>>, <<37, 36, 92, 97>>, <<123, 98, 125>> }
VerbEnv(e, text) == /\ e[3] = "legacyverb" /\ CanContent /\ ~InMath
                    /\ Write(<<92, 98, 101, 103, 105, 110, 123>> \o e[1] \o <<125>> \o text \o <<92, 101, 110, 100, 123>> \o e[1] \o <<125>>,
                             AddChild(N("env", e[1], <<>>, << << N("verb", text, <<>>, <<>>, <<>>) >> >>, <<>>)), "sym")
                    /\ UNCHANGED mk

(* ---- argument slots ------------------------------------------------------------------------ *)
NoSpaceBefore == ~Slot.pre => last # "space"
ArgGroupOpen == /\ InArgs /\ Slot.k = "m"
                /\ Write(<<123>>, Append(stk, F("arggroup", <<>>, <<>>, <<123, 125>>, Slot.delta)), "sym") /\ UNCHANGED mk
ArgTok == /\ "argtoken" \in Features /\ InArgs /\ Slot.k = "m"
          /\ \/ Write(<<97>>, PutArg(<< N("chars", <<97>>, <<>>, <<>>, <<>>) >>), "text")
             \/ \E z \in ArglessMacros :
                   Write(<<92>> \o z, PutArg(<< N("macro", z, <<>>, <<>>, <<>>) >>), IF Letter(z[1]) THEN "cw" ELSE "sym")
          /\ UNCHANGED mk
ArgOptOpen == /\ InArgs /\ Slot.k = "o" /\ NoSpaceBefore
              /\ Write(<<91>>, Append(stk, F("optgroup", <<>>, <<>>, <<91, 93>>, "")), "sym") /\ UNCHANGED mk
ArgDelimOpen == /\ InArgs /\ Slot.k \in {"r", "d"} /\ NoSpaceBefore
                /\ Write(<<Slot.a>>, Append(stk, F("delimgroup", <<>>, <<>>, <<Slot.a, Slot.b>>, "")), "sym") /\ UNCHANGED mk
ArgMarker == /\ InArgs /\ Slot.k \in {"s", "t"} /\ NoSpaceBefore
             /\ LET c == IF Slot.k = "s" THEN 42 ELSE Slot.a IN
                Write(<<c>>, PutArg(<< N("chars", <<c>>, <<>>, <<>>, <<>>) >>), "sym")
             /\ UNCHANGED mk
ArgAbsent == /\ InArgs /\ Slot.k \in {"o", "s", "t", "d"}
             /\ LET c == IF Slot.k = "o" THEN 91 ELSE IF Slot.k = "s" THEN 42 ELSE Slot.a IN
                /\ stk' = PutArg(<<>>)
                /\ IF Slot.pre THEN forbid' = forbid \cup {c} /\ forbidnow' = forbidnow
                   ELSE IF last = "space" THEN UNCHANGED <<forbid, forbidnow>>       \* whitespace already separates
                   ELSE forbid' = forbid /\ forbidnow' = forbidnow \cup {c}
             /\ n' = n + 1 /\ UNCHANGED <<src, last, mk, done, faulted>>
ArgVerb(d, text) == /\ InArgs /\ Slot.k \in {"v", "verb"}
                    /\ (d = 123 => Slot.k = "v")
                    /\ \A i \in 1..Len(text) : text[i] # d \/ d = 123
                    /\ LET c == IF d = 123 THEN 125 ELSE d IN
                       Write(<<d>> \o text \o <<c>>, PutArg(<< N("verb", text, <<d, c>>, <<>>, <<>>) >>), "sym")
                    /\ UNCHANGED mk

(* ---- one unmatched structural token (C05) ---------------------------------------------------- *)
InjectFault(f) == /\ "fault" \in Features /\ ~faulted
                  /\ ~(InArgs /\ Slot.k \in {"v", "verb"})      \* the next character would be taken as a verbatim delimiter
                  /\ OkFirst(f[1])
                  /\ src' = src \o f /\ last' = (IF f = <<36>> THEN "dollar" ELSE "sym") /\ forbid' = {} /\ forbidnow' = {}
                  /\ faulted' = TRUE /\ n' = n + 1 /\ UNCHANGED <<stk, mk, done>>

CommentEof == /\ "commenteof" \in Features /\ Len(stk) = 1 /\ CanContent /\ ~done /\ n > 0 /\ OkFirst(37)
              /\ src' = src \o <<37, 99>> \o Digit /\ stk' = AddChild(N("comment", <<99>> \o Digit, <<>>, <<>>, <<>>))
              /\ done' = TRUE /\ n' = n + 1 /\ UNCHANGED <<last, forbid, forbidnow, mk, faulted>>
Finish == /\ Len(stk) = 1 /\ CanContent /\ ~done /\ n > 0
          /\ done' = TRUE /\ UNCHANGED <<src, stk, last, forbid, forbidnow, n, mk, faulted>>

Opening == \/ Text \/ BracketText \/ Space \/ Par \/ Comment \/ OpenGroup
           \/ \E sp \in WSpecials : Special(sp)
           \/ \E d \in MathDelims : OpenMath(d)
           \/ \E m \in WMacros : Call(m)
           \/ \E e \in WEnvs : BeginEnv(e)
           \/ \E e \in WEnvs, t \in VerbTexts : VerbEnv(e, t)
           \/ ArgGroupOpen \/ ArgOptOpen \/ ArgDelimOpen
           \/ \E f \in Faults : InjectFault(f)
Closing == \/ CloseGroup \/ CloseOpt \/ CloseDelim \/ CloseMath \/ EndEnv
           \/ ArgTok \/ ArgMarker \/ ArgAbsent
           \/ \E d \in {123, 124, 43}, t \in VerbTexts : ArgVerb(d, t)
Next == /\ ~done
        /\ \/ (n < MaxActs /\ Opening)
           \/ (n < MaxActs + 6 /\ Closing)
           \/ CommentEof \/ Finish
Init == /\ src = <<>> /\ stk = << F("root", <<>>, <<>>, <<>>, "") >> /\ last = "start"
        /\ forbid = {} /\ forbidnow = {} /\ n = 0 /\ mk = 0 /\ done = FALSE /\ faulted = FALSE
Spec == Init /\ [][Next]_vars
Tree == stk[1].body
=============================================================================

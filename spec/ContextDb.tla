------------------------------ MODULE ContextDb ------------------------------
(* C14 -- context database lookups follow category order under every build    *)
(* history.                                                                    *)
(*                                                                             *)
(* Tier B (reference model, shaped like macrospec/_latexcontextdb.py): every   *)
(* database object keeps BOTH bookkeeping structures of the code -- the        *)
(* ordered `cats` (category_list) with the per-category dictionaries `d`, and  *)
(* the chain of dictionaries `maps` (lookup_chain_maps[kind].maps) that        *)
(* get_*_spec() really consults.  One generic "kind" is modelled; the harness  *)
(* replays every behaviour for macros, environments and specials.              *)
(*                                                                             *)
(* Tier A (the property): OrderLookup / OrderSpecials are defined on `cats`    *)
(* and `d` only (the *reported* category order), never on `maps`.              *)
(*                                                                             *)
(* Named variants (deliberate deviations of the pinned code):                  *)
(*   VInsert = "as_implemented": add_context_category inserts into `maps` with *)
(*       the index computed for `cats` although `maps` starts with an extra    *)
(*       empty dictionary;                                                     *)
(*   VFilter = "as_implemented": filtered_context() re-adds categories through *)
(*       add_context_category(), which refuses automatically named categories, *)
(*       so databases containing an anonymous category cannot be filtered.     *)
EXTENDS Integers, Sequences, FiniteSets, TLC, Json

CONSTANTS Cats,        \* named categories (strings)
          Names,       \* entry names (strings); for specials "x" |-> "-", "y" |-> "--"
          MaxObj, MaxSteps,
          NsChoices,   \* subsets of Names usable as the definitions of a new category
          KeepChoices, ExclChoices,
          VInsert, VFilter,
          EmitMode     \* "none" | "states"

None == "_none_"                        \* category=None / insert_before=None
AutoName(k) == "_auto" \o ToString(k)
IsAuto(c) == c \notin Cats              \* only used on categories present in an object
FreeObj == [free |-> TRUE]

VARIABLES objs, step, last, hist
vars == <<objs, step, last, hist>>

Ids == 1..MaxObj
Live == { i \in Ids : objs[i] # FreeObj }

(* a dictionary is a sequence of <<name, specid>> with distinct names (python  *)
(* dicts keep insertion order)                                                 *)
DNames(dd) == { dd[k][1] : k \in DOMAIN dd }
DGet(dd, n) == dd[CHOOSE k \in DOMAIN dd : dd[k][1] = n][2]
RECURSIVE DUpdate(_, _)
DUpdate(dd, new) ==
    IF new = <<>> THEN dd
    ELSE LET e == Head(new) IN
         IF e[1] \in DNames(dd)
         THEN DUpdate([k \in DOMAIN dd |-> IF dd[k][1] = e[1] THEN e ELSE dd[k]], Tail(new))
         ELSE DUpdate(Append(dd, e), Tail(new))
(* deterministic order of a set of names: "x" before "y" (the harness passes   *)
(* definitions in sorted order)                                                *)
NameSeq(ns) == (IF "x" \in ns THEN <<"x">> ELSE <<>>) \o (IF "y" \in ns THEN <<"y">> ELSE <<>>)
               \o (IF "z" \in ns THEN <<"z">> ELSE <<>>)
NewDict(ns) == LET q == NameSeq(ns) IN [k \in DOMAIN q |-> << q[k], ToString(step + 1) \o q[k] >>]

EmptyObj == [cats |-> <<>>, maps |-> << <<>> >>, d |-> [c \in {} |-> <<>>],
             frozen |-> FALSE, unk |-> "none", ctr |-> 0]

InsertAt(sq, i, x) == SubSeq(sq, 1, i) \o <<x>> \o SubSeq(sq, i + 1, Len(sq))  \* list.insert(i, x), i clipped
ClipIns(sq, i, x) == InsertAt(sq, IF i > Len(sq) THEN Len(sq) ELSE i, x)
InSeq(sq, x) == \E k \in 1..Len(sq) : sq[k] = x
IndexOf(sq, x) == (CHOOSE k \in 1..Len(sq) : sq[k] = x /\ \A j \in 1..(k - 1) : sq[j] # x) - 1   \* 0-based
CatSet(o) == { o.cats[k] : k \in 1..Len(o.cats) }

(* _get_new_autogen_category(): first counter value >= ctr whose name is free *)
RECURSIVE FreshCtr(_, _)
FreshCtr(o, k) == IF InSeq(o.cats, AutoName(k)) THEN FreshCtr(o, k + 1) ELSE k

(* ---- Tier A ------------------------------------------------------------- *)
OrderLookup(o, n) ==
    LET hits == { k \in 1..Len(o.cats) : n \in DNames(o.d[o.cats[k]]) } IN
    IF hits = {} THEN o.unk
    ELSE LET k == CHOOSE j \in hits : \A m \in hits : j <= m IN DGet(o.d[o.cats[k]], n)
(* specials: name "x" stands for "-", "y" for "--"; testing the text "--" at 0: *)
(* the longest defined sequence wins, ties to the earlier category               *)
OrderSpecials2(o) == IF \E k \in 1..Len(o.cats) : "y" \in DNames(o.d[o.cats[k]]) THEN OrderLookup(o, "y")
                     ELSE IF \E k \in 1..Len(o.cats) : "x" \in DNames(o.d[o.cats[k]]) THEN OrderLookup(o, "x")
                     ELSE "nomatch"
OrderSpecials1(o) == IF \E k \in 1..Len(o.cats) : "x" \in DNames(o.d[o.cats[k]]) THEN OrderLookup(o, "x")
                     ELSE "nomatch"

(* ---- what the code computes --------------------------------------------- *)
ChainLookup(o, n) ==
    LET hits == { k \in 1..Len(o.maps) : n \in DNames(o.maps[k]) } IN
    IF hits = {} THEN o.unk
    ELSE LET k == CHOOSE j \in hits : \A m \in hits : j <= m IN DGet(o.maps[k], n)
(* test_for_specials walks category_list / d, strictly-longer wins *)
RECURSIVE TestSpecials(_, _, _, _, _)
TestSpecials(o, text, k, bestlen, best) ==      \* text \in {1, 2}: "-" or "--"
    IF k > Len(o.cats) THEN best
    ELSE LET dd == o.d[o.cats[k]]
             hasy == "y" \in DNames(dd) /\ text = 2
             hasx == "x" \in DNames(dd)
             \* dict order inside one category: whichever matching key comes first is tested first
             b1 == IF hasy /\ 2 > bestlen THEN <<2, DGet(dd, "y")>>
                   ELSE IF hasx /\ 1 > bestlen THEN <<1, DGet(dd, "x")>> ELSE <<bestlen, best>>
             \* if x was taken but y is also present in this category, y (longer) replaces it
             b2 == IF hasy /\ 2 > b1[1] THEN <<2, DGet(dd, "y")>> ELSE b1
         IN TestSpecials(o, text, k + 1, b2[1], b2[2])
Answers(o) == [n \in Names |-> ChainLookup(o, n)]
Observe(o) == [cats |-> o.cats, ans |-> [n \in Names |-> ChainLookup(o, n)],
               sp1 |-> TestSpecials(o, 1, 1, 0, "nomatch"), sp2 |-> TestSpecials(o, 2, 1, 0, "nomatch"),
               frozen |-> o.frozen]

(* ---- actions (one per public mutator / derivation) ----------------------- *)
Rec(a) == /\ last' = a /\ hist' = Append(hist, a)

(* mode: <<"append">>, <<"prepend">>, <<"before", c>>, <<"after", c>> *)
AddCat(i, cat, ns, mode) ==
    LET o == objs[i]
        fresh == FreshCtr(o, o.ctr)
        cname == IF cat = None THEN AutoName(fresh) ELSE cat
        o1 == IF cat = None THEN [o EXCEPT !.ctr = fresh + 1] ELSE o
        act == [a |-> "AddCat", o |-> i, cat |-> cat, ns |-> NameSeq(ns), mode |-> mode]
    IN
    /\ o # FreeObj
    /\ IF o.frozen
       THEN UNCHANGED objs /\ Rec(act @@ [raises |-> "RuntimeError"])
       ELSE IF InSeq(o.cats, cname)
       THEN \* the autogen counter has been advanced before the duplicate test (cannot be a duplicate then)
            UNCHANGED objs /\ Rec(act @@ [raises |-> "ValueError"])
       ELSE LET dd == NewDict(ns)
                ci == IF mode[1] = "append" THEN Len(o.cats)
                      ELSE IF mode[1] = "prepend" THEN 0
                      ELSE IF mode[1] = "before"
                           THEN (IF InSeq(o.cats, mode[2]) THEN IndexOf(o.cats, mode[2]) ELSE 0)
                           ELSE (IF InSeq(o.cats, mode[2]) THEN IndexOf(o.cats, mode[2]) + 1 ELSE Len(o.cats))
                newcats == InsertAt(o.cats, ci, cname)
                newd == [c \in DOMAIN o.d \cup {cname} |-> IF c = cname THEN dd ELSE o.d[c]]
                newmaps == IF VInsert = "as_implemented"
                           THEN (IF mode[1] = "append" THEN Append(o.maps, dd) ELSE ClipIns(o.maps, ci, dd))
                           ELSE [k \in 1..Len(newcats) |-> newd[newcats[k]]]     \* chain kept aligned with cats
            IN /\ objs' = [objs EXCEPT ![i] = [o1 EXCEPT !.cats = newcats, !.maps = newmaps, !.d = newd]]
               /\ Rec(act @@ [raises |-> "no"])

Freeze(i) == /\ objs[i] # FreeObj /\ ~objs[i].frozen
             /\ objs' = [objs EXCEPT ![i].frozen = TRUE]
             /\ Rec([a |-> "Freeze", o |-> i])

SetUnknown(i, u) ==
    /\ objs[i] # FreeObj
    /\ IF objs[i].frozen THEN UNCHANGED objs ELSE objs' = [objs EXCEPT ![i].unk = u]
    /\ Rec([a |-> "SetUnknown", o |-> i, u |-> u,
            raises |-> IF objs[i].frozen THEN "RuntimeError" ELSE "no"])

(* j := objs[i].extended_with(category=cat, <kind>=ns [, unknown_<kind>_spec=u]) *)
Extended(i, j, cat, ns, u) ==
    LET o == objs[i]
        act == [a |-> "Extended", o |-> i, to |-> j, cat |-> cat, ns |-> NameSeq(ns), u |-> u]
        unk2 == IF u = "keep" THEN o.unk ELSE u
        dd == NewDict(ns)
    IN
    /\ o # FreeObj /\ objs[j] = FreeObj
    /\ IF cat # None /\ InSeq(o.cats, cat)
       THEN UNCHANGED objs /\ Rec(act @@ [raises |-> "ValueError"])
       ELSE IF ~o.frozen
       THEN UNCHANGED objs /\ Rec(act @@ [raises |-> "RuntimeError"])
       ELSE IF cat = None /\ Len(o.cats) > 0 /\ IsAuto(o.cats[1])
       THEN \* merge into the leading automatically named category (copy of its dictionary)
            LET c1 == o.cats[1]
                merged == DUpdate(o.d[c1], dd)
                n == [cats |-> o.cats, maps |-> <<merged>> \o Tail(o.maps),
                      d |-> [c \in DOMAIN o.d |-> IF c = c1 THEN merged ELSE o.d[c]],
                      frozen |-> TRUE, unk |-> unk2, ctr |-> o.ctr]
            IN objs' = [objs EXCEPT ![j] = n] /\ Rec(act @@ [raises |-> "no"])
       ELSE LET fresh == FreshCtr(o, o.ctr)
                cname == IF cat = None THEN AutoName(fresh) ELSE cat
                n == [cats |-> <<cname>> \o o.cats, maps |-> <<dd>> \o o.maps,
                      d |-> [c \in DOMAIN o.d \cup {cname} |-> IF c = cname THEN dd ELSE o.d[c]],
                      frozen |-> TRUE, unk |-> unk2,
                      ctr |-> IF cat = None THEN fresh + 1 ELSE o.ctr]
            IN objs' = [objs EXCEPT ![j] = n] /\ Rec(act @@ [raises |-> "no"])

(* j := objs[i].filtered_context(keep_categories=keep, exclude_categories=excl,  *)
(*                               keep_which = this kind iff kw)                   *)
Filtered(i, j, keep, excl, kw) ==
    LET o == objs[i]
        act == [a |-> "Filtered", o |-> i, to |-> j, keep |-> keep, excl |-> excl, kw |-> kw]
        kept == SelectSeq(o.cats, LAMBDA c : (keep = {} \/ c \in keep) /\ (c \notin excl))
        dk(c) == IF kw THEN o.d[c] ELSE <<>>
    IN
    /\ o # FreeObj /\ objs[j] = FreeObj
    /\ IF VFilter = "as_implemented" /\ \E k \in 1..Len(kept) : IsAuto(kept[k])
       THEN UNCHANGED objs /\ Rec(act @@ [raises |-> "ValueError"])
       ELSE /\ objs' = [objs EXCEPT ![j] =
                  [cats |-> kept,
                   maps |-> IF VInsert = "as_implemented" \/ kept = <<>>
                            THEN << <<>> >> \o [k \in 1..Len(kept) |-> dk(kept[k])]
                            ELSE [k \in 1..Len(kept) |-> dk(kept[k])],
                   d |-> [c \in { kept[k] : k \in 1..Len(kept) } |-> dk(c)],
                   frozen |-> FALSE, unk |-> o.unk, ctr |-> 0]]
            /\ Rec(act @@ [raises |-> "no"])

HasFree == \E f \in Ids : objs[f] = FreeObj
FreeId == CHOOSE f \in Ids : objs[f] = FreeObj /\ \A g \in Ids : objs[g] = FreeObj => f <= g
Modes == { <<"append">>, <<"prepend">> } \cup { <<"before", c>> : c \in Cats } \cup { <<"after", c>> : c \in Cats }

Next == /\ step < MaxSteps /\ step' = step + 1
        /\ \/ \E i \in Ids, c \in Cats \cup {None}, ns \in NsChoices, m \in Modes : AddCat(i, c, ns, m)
           \/ \E i \in Ids : Freeze(i)
           \/ \E i \in Ids : SetUnknown(i, "U1")
           \/ HasFree /\ \E i \in Ids, c \in Cats \cup {None}, ns \in NsChoices, u \in {"keep", "U2"} :
                 Extended(i, FreeId, c, ns, u)
           \/ HasFree /\ \E i \in Ids, keep \in KeepChoices, excl \in ExclChoices, kw \in BOOLEAN :
                 Filtered(i, FreeId, keep, excl, kw)

Init == /\ objs = [i \in Ids |-> IF i = 1 THEN EmptyObj ELSE FreeObj]
        /\ step = 0 /\ last = [a |-> "Init"] /\ hist = <<>>
Spec == Init /\ [][Next]_vars

(* ---- properties ----------------------------------------------------------- *)
LookupFollowsOrder == \A i \in Live : \A n \in Names : ChainLookup(objs[i], n) = OrderLookup(objs[i], n)
SpecialsLongest == \A i \in Live : /\ TestSpecials(objs[i], 2, 1, 0, "nomatch") = OrderSpecials2(objs[i])
                                   /\ TestSpecials(objs[i], 1, 1, 0, "nomatch") = OrderSpecials1(objs[i])
(* only the object an action targets (and the one it creates) may change *)
OthersUntouched == [][\A i \in Ids : (objs[i] # FreeObj /\ i # last'.o) => (objs'[i] = objs[i])]_vars
(* a call that raises changes nothing; a frozen database refuses every mutator *)
RaisesChangeNothing == [][("raises" \in DOMAIN last' /\ last'.raises # "no") => objs' = objs]_vars
FrozenRefuses == [][(last'.a \in {"AddCat", "SetUnknown"} /\ objs[last'.o].frozen) => last'.raises = "RuntimeError"]_vars
(* derived databases can be derived again: filtering never fails, extension of a  *)
(* frozen database with a category name that is not in use never fails           *)
DerivableAgain == [][/\ (last'.a = "Filtered" => last'.raises = "no")
                     /\ (last'.a = "Extended" /\ objs[last'.o].frozen
                         /\ (last'.cat = None \/ ~InSeq(objs[last'.o].cats, last'.cat)) => last'.raises = "no")]_vars

View == <<objs, step>>
ViewLast == <<objs, step, last>>
Emit == EmitMode = "states" =>
          PrintT(ToJson([hist |-> hist, obs |-> [i \in Ids |-> IF objs[i] = FreeObj THEN [free |-> TRUE]
                                                               ELSE Observe(objs[i])]]))
=============================================================================

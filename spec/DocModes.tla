------------------------------- MODULE DocModes -------------------------------
(* C10 on written documents: the document writer (with text-in-math and          *)
(* math-in-text-in-math enabled, feature "textinmath") composed with the          *)
(* reference parser; TLC checks that every node of every written document         *)
(* records the mode implied by the enclosing structure (Modes!ModesOK), and       *)
(* prints the parsed trees for comparison with the real parser's.                 *)
EXTENDS DocCheck, Modes

CONSTANT ModesCfg

WrittenModesOK == (done /\ ~faulted /\ Parsed.ok) => ModesOK(Parsed.v.ns, ModesCfg)
EmitModes == (done /\ ~faulted) => PrintT(ToJson([s |-> src, res |-> [strict |-> Parsed]]))
=============================================================================

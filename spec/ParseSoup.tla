------------------------------- MODULE ParseSoup -------------------------------
(* Random token soups: the input of ParseRun grown atom by atom (one action per   *)
(* atom), so that `tlc -simulate` draws random strings of exactly MaxAtoms atoms,  *)
(* well beyond the exhaustive bound; then parsed by the reference parser in the    *)
(* requested modes.  All Tier-A invariants of ParseRun apply unchanged.            *)
EXTENDS ParseRun

CONSTANT MaxAtoms
VARIABLE natoms
svars == <<s, res, done, natoms>>

SoupInit == s = <<>> /\ res = <<>> /\ done = FALSE /\ natoms = 0
Grow == /\ ~done /\ natoms < MaxAtoms
        /\ \E i \in DOMAIN Atoms : s' = s \o Atoms[i]
        /\ natoms' = natoms + 1 /\ UNCHANGED <<res, done>>
Finish == /\ ~done /\ natoms = MaxAtoms /\ done' = TRUE
          /\ res' = [m \in RunModes |-> ParseDoc(s, StOf(m))]
          /\ UNCHANGED <<s, natoms>>
SoupSpec == SoupInit /\ [][Grow \/ Finish]_svars
=============================================================================

------------------------------- MODULE LineCol -------------------------------
(* C20 -- positions map to the right line and column.                         *)
(*                                                                            *)
(* Tier B: the scanner (one step per character, as a pass over the string     *)
(* keeping "current line number" and "start offset of the current line").     *)
(* Tier A: the statement of the property, written without the scanner:        *)
(*   lineno = line_number_offset + #newlines strictly before pos              *)
(*   pos    = StartOfLine(lineno) + colno - (column offset of that line)      *)
(* TLC checks Scanner => Statement at every step, for every string up to the  *)
(* bound, and prints the finished table so that the harness can compare the   *)
(* implementation with it position by position.                               *)
EXTENDS Integers, Sequences, FiniteSets, TLC, Json

CONSTANTS Alphabet,      \* set of code points
          K,             \* maximal string length
          LineOffs,      \* set of line_number_offset values
          FirstColOffs,  \* set of first_line_column_offset values
          ColOffs,       \* set of column_offset values
          Shard          \* first character of the strings of this run (0: all, incl. the empty string)

NL == 10

VARIABLES s, off, i, lineStart, lineIdx, table, done
vars == <<s, off, i, lineStart, lineIdx, table, done>>

Strings == UNION { [1..n -> Alphabet] : n \in 0..K }

Init == /\ s \in { x \in Strings : Shard = 0 \/ (Len(x) > 0 /\ x[1] = Shard) }
        /\ off \in [line : LineOffs, first : FirstColOffs, col : ColOffs]
        /\ i = 0 /\ lineStart = 0 /\ lineIdx = 0 /\ table = <<>> /\ done = FALSE

(* one scanner step: report position i, then consume character i (0-based) *)
Scan == /\ ~done
        /\ i <= Len(s)
        /\ table' = Append(table, [pos |-> i,
                                   lineno |-> lineIdx + off.line,
                                   colno |-> (i - lineStart) + (IF lineIdx = 0 THEN off.first ELSE off.col)])
        /\ IF i < Len(s)
           THEN /\ i' = i + 1
                /\ IF s[i + 1] = NL
                   THEN lineStart' = i + 1 /\ lineIdx' = lineIdx + 1
                   ELSE UNCHANGED <<lineStart, lineIdx>>
                /\ done' = FALSE
           ELSE /\ done' = TRUE /\ UNCHANGED <<i, lineStart, lineIdx>>
        /\ UNCHANGED <<s, off>>

Next == Scan
Spec == Init /\ [][Next]_vars /\ WF_vars(Next)

(* ---- Tier A: the statement ---------------------------------------------- *)
NewlinesBefore(p) == Cardinality({ j \in 1..p : s[j] = NL })           \* s[j], j<=p  <=> python index < p
(* start offset of the line with 0-based index k: 0, or 1 + position of the k-th newline *)
StartOfLineIdx(k) ==
    IF k = 0 THEN 0
    ELSE CHOOSE q \in 1..Len(s) : s[q] = NL /\ Cardinality({ j \in 1..q : s[j] = NL }) = k
Statement(e) ==
    LET k == e.lineno - off.line IN
    /\ k = NewlinesBefore(e.pos)
    /\ e.pos = StartOfLineIdx(k) + e.colno - (IF k = 0 THEN off.first ELSE off.col)

TableOK == \A j \in 1..Len(table) : table[j].pos = j - 1 /\ Statement(table[j])
Complete == done => Len(table) = Len(s) + 1
Terminates == <>done

Emit == done => PrintT(ToJson([s |-> s, off |-> off, table |-> table]))
=============================================================================

------------------------------- MODULE CallShapes -------------------------------
(* C07 -- enumeration of every well-formed *use shape* of a callable with a given   *)
(* argument signature: each mandatory slot is an empty group, a group with content   *)
(* or a single token; each optional slot absent, empty or with content; a star slot  *)
(* absent or present; delimited slots likewise; an environment body empty, one       *)
(* token, or a small table; and the context the call appears in (top level, inside   *)
(* a formatting macro's argument, inside math, or directly -- unbraced -- where      *)
(* another macro expects its argument).  The harness instantiates every shape with   *)
(* every name of the databases that has this signature.                              *)
EXTENDS Integers, Sequences, FiniteSets, TLC, Json

CONSTANTS Sig,        \* sequence of slot kinds: "m" "o" "s" "t" "r" "d" "v"
          IsEnv       \* BOOLEAN

Choices(k) == CASE k = "m" -> {"{}", "{x}", "{Xy1}", "tok"}      \* empty, one letter, upper/lower/digit mix, single token
                [] k = "o" -> {"absent", "[]", "[x]"}
                [] k = "s" -> {"absent", "*"}
                [] k = "t" -> {"absent", "char"}
                [] k = "r" -> {"<>", "<x>"}
                [] k = "d" -> {"absent", "<>", "<x>"}
                [] k = "v" -> {"{}", "|x|"}
                [] k = "verb" -> {"|x|", "+{+"}
Contexts == {"top", "in-textbf", "in-math", "arg-of-emph", "arg-of-frac", "arg-of-sqrt", "arg-of-accent", "in-item"}
Bodies == IF IsEnv THEN {"", "x", "x & y \\\\ z", "x \\\\ y & z", " & x \\\\ a & b & c", "\\\\ a & b"} ELSE {"-"}

VARIABLES fill, ctx, body
vars == <<fill, ctx, body>>
Init == /\ fill \in { f \in [1..Len(Sig) -> UNION { Choices(Sig[i]) : i \in 1..Len(Sig) }] :
                        \A i \in 1..Len(Sig) : f[i] \in Choices(Sig[i]) }
        /\ ctx \in Contexts /\ body \in Bodies
Next == UNCHANGED vars
Spec == Init /\ [][Next]_vars
(* a single-token mandatory argument directly after an absent optional one is still unambiguous;  *)
(* nothing to exclude: every combination is a well-formed use                                       *)
Emit == PrintT(ToJson([fill |-> fill, ctx |-> ctx, body |-> body]))
=============================================================================

------------------------------- MODULE TraceTree -------------------------------
(* C->S acceptor for trees recorded from the implementation.  Each trace is a     *)
(* record [kind, s, ns, ...]; `kind` selects the Tier-A predicate of TreeProps      *)
(* that the recorded tree must satisfy:                                            *)
(*   "cover_strict"    C01 for an input the strict parser accepted                  *)
(*                     (fields: ns with txt, verbs = latex_verbatim() of the        *)
(*                     top-level nodes)                                             *)
(*   "cover_tolerant"  C01, in-range / nesting part, for a tolerant result          *)
(*   "prefix_kept"     C06 (c): fields ns (tolerant result), tn (top-level nodes    *)
(*                     of the strict parse of the maximal strictly parseable        *)
(*                     prefix ending at or before the first error)                  *)
(*   "completion_kept" C06 (c): fields ns (tolerant result of s), cn (strict tree of s    *)
(*                     completed with closing delimiters), slen = Len(s)                   *)
(*   "same_tree"       C06 (b): fields ns, other                                    *)
(*   "inert"           C13: the tree of the strictly parsed encoder output has no       *)
(*                     comment, environment or math node                             *)
(*   "modes"           C10: fields ns, textmacros, mathmacros, mathenvs             *)
EXTENDS TreeProps, Modes, Json, IOUtils

Traces == JsonDeserialize(IOEnv.TRACE_FILE)
Diag == "DIAG" \in DOMAIN IOEnv /\ IOEnv.DIAG = "1"

VARIABLES tid, l
vars == <<tid, l>>
Tr == Traces[tid]
Ev == <<1>>          \* one evaluation step per trace

Clauses ==
    CASE Tr.kind = "cover_strict" ->
           [Tiles |-> Tiles(Tr.s, Tr.ns), Nesting |-> SeqCover(Tr.s, Tr.ns, 1, 0, Len(Tr.s), TRUE),
            Verbatim |-> VerbatimReproduces(Tr.s, Tr.verbs)]
      [] Tr.kind = "cover_tolerant" ->
           [Nesting |-> SeqCover(Tr.s, Tr.ns, 1, 0, Len(Tr.s), FALSE)]
      [] Tr.kind = "prefix_kept" ->
           [PrefixKept |-> PrefixKept(Tr.ns, Tr.tn)]
      [] Tr.kind = "completion_kept" ->
           [CompletionKept |-> CompletionKept(Tr.ns, Tr.cn, Tr.slen)]
      [] Tr.kind = "same_tree" ->
           [SameTree |-> Tr.ns = Tr.other]
      [] Tr.kind = "inert" ->
           [Inert |-> IF "spans" \in DOMAIN Tr THEN InertExcept(Tr.ns, Tr.spans) ELSE Inert(Tr.ns)]
      [] Tr.kind = "modes" ->
           [Modes |-> ModesOK(Tr.ns, Tr.cfg)]
Holds == \A f \in DOMAIN Clauses : Clauses[f]

Init == tid \in 1..Len(Traces) /\ l = 1
Step == l = 1 /\ Holds /\ l' = 2 /\ UNCHANGED tid
Spec == Init /\ [][Step]_vars
Accept == l = 2 => PrintT(<<"ACC", tid>>)
Progress == Diag => PrintT(<<"AT", tid, l>>)
DiagClauses == (Diag /\ l = 1) => PrintT(<<"CL", tid, l, { f \in DOMAIN Clauses : ~Clauses[f] }>>)
=============================================================================

--------------------------------- MODULE Visit ---------------------------------
(* C19 Tier A acceptor: the callback log of a LatexNodesVisitor must be the       *)
(* post-order of the structure (arguments before body, document order), every     *)
(* reachable vertex exactly once, the right callback for the vertex kind, and     *)
(* each callback must receive its children's return values in order (0 = None).   *)
(*                                                                                 *)
(* A trace: [root, tab, ev].  tab[i] = [kind, ch] is obtained by the harness with   *)
(* an independent walk over public attributes (nodeargd.argnlist, nodelist; None    *)
(* children are 0).  ev[l] = [id, res, cb]: the vertex the l-th callback was        *)
(* invoked on, the child results it was handed, and the callback's name.            *)
EXTENDS Integers, Sequences, TLC, Json, IOUtils

Traces == JsonDeserialize(IOEnv.TRACE_FILE)
Diag == "DIAG" \in DOMAIN IOEnv /\ IOEnv.DIAG = "1"
VARIABLES tid, l
vars == <<tid, l>>
Tab == Traces[tid].tab
Ev == Traces[tid].ev

RECURSIVE PostOrder(_, _)
RECURSIVE PostOrderList(_, _, _)
PostOrderList(tab, ch, i) == IF i > Len(ch) THEN <<>>
                             ELSE (IF ch[i] = 0 THEN <<>> ELSE PostOrder(tab, ch[i])) \o PostOrderList(tab, ch, i + 1)
PostOrder(tab, n) == PostOrderList(tab, tab[n].ch, 1) \o <<n>>
Expected == PostOrder(Tab, Traces[tid].root)

C_Order(e)    == l <= Len(Expected) /\ e.id = Expected[l]      \* right vertex at the right moment, hence exactly once
C_Results(e)  == e.id >= 1 /\ e.id <= Len(Tab) /\ e.res = Tab[e.id].ch
C_Callback(e) == e.id >= 1 /\ e.id <= Len(Tab) /\ e.cb = Tab[e.id].kind

Init == tid \in 1..Len(Traces) /\ l = 1
Step == /\ l <= Len(Ev)
        /\ LET e == Ev[l] IN C_Order(e) /\ C_Results(e) /\ C_Callback(e)
        /\ l' = l + 1 /\ UNCHANGED tid
Spec == Init /\ [][Step]_vars
Accept == (l = Len(Ev) + 1 /\ Len(Ev) = Len(Expected)) => PrintT(<<"ACC", tid>>)
Progress == Diag => PrintT(<<"AT", tid, l>>)
DiagClauses == (Diag /\ l <= Len(Ev)) =>
    PrintT(<<"CL", tid, l, [Order |-> C_Order(Ev[l]), Results |-> C_Results(Ev[l]), Callback |-> C_Callback(Ev[l]),
                            Complete |-> TRUE]>>)
DiagEnd == (Diag /\ l = Len(Ev) + 1 /\ Len(Ev) # Len(Expected)) =>
    PrintT(<<"CL", tid, l, [Complete |-> FALSE]>>)
=============================================================================

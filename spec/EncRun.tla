-------------------------------- MODULE EncRun --------------------------------
(* Model-checking / export harness around Encoder.tla: every string of at most K  *)
(* characters over Alphabet under every configuration of Cfgs.  TLC checks the     *)
(* consequences the property states (homomorphism for per-character rules, fail    *)
(* exactly on unmatched characters, ASCII-only output) and prints every behaviour  *)
(* for replay into the implementation.                                             *)
EXTENDS Encoder, Json

CONSTANTS Alphabet,     \* sequence of code points
          K, Shard,
          Cfgs,         \* sequence of configuration records
          CfgIdx,       \* set of indices of Cfgs explored in this run
          NfcTab

VARIABLES s, ci, res, done
vars == <<s, ci, res, done>>

AllShards == -1
Init == /\ IF Shard = AllShards THEN \E n \in 0..K : \E sq \in [1..n -> 1..Len(Alphabet)] : s = [i \in 1..n |-> Alphabet[sq[i]]]
           ELSE IF Shard = 0 THEN s = <<>>
           ELSE \E n \in 0..(K - 1) : \E sq \in [1..n -> 1..Len(Alphabet)] :
                  s = <<Alphabet[Shard]>> \o [i \in 1..n |-> Alphabet[sq[i]]]
        /\ ci \in CfgIdx /\ res = <<>> /\ done = FALSE
Next == /\ ~done /\ done' = TRUE /\ UNCHANGED <<s, ci>>
        /\ res' = Encode(Cfgs[ci], NfcTab, s)
Spec == Init /\ [][Next]_vars

Cfg == Cfgs[ci]
T == Nfc(NfcTab, s)
RECURSIVE ConcatEnc(_, _, _)
ConcatEnc(cfg, t, i) == IF i > Len(t) THEN <<>> ELSE Enc(cfg, <<t[i]>>, 1, <<>>, <<>>).out \o ConcatEnc(cfg, t, i + 1)

(* encoding a concatenation equals concatenating the encodings (per-character rules) *)
Homomorphism == (done /\ res.ok /\ SingleCharRules(Cfg) /\ Cfg.policy # "fail") => res.out = ConcatEnc(Cfg, T, 1)
(* 'fail' raises exactly when some character has no rule and is outside the pass-through range *)
FailIff == (done /\ Cfg.policy = "fail" /\ SingleCharRules(Cfg)) => (res.ok <=> Unmatched(Cfg, T) = {})
(* ASCII-only output when asked, given ASCII replacements *)
AsciiReplacements(cfg) == \A i \in DOMAIN cfg.rules : \A k \in DOMAIN cfg.rules[i].ent :
                             \A j \in DOMAIN cfg.rules[i].ent[k][2] : cfg.rules[i].ent[k][2][j] < 128
AsciiOnly == (done /\ res.ok /\ Cfg.policy \in {"replace", "ignore", "unihex"} /\ AsciiReplacements(Cfg))
             => \A j \in DOMAIN res.out : res.out[j] < 128
(* every position the loop reaches is accounted for exactly once, in order *)
LogInOrder == (done /\ res.ok) => \A j \in 1..(Len(res.log) - 1) : res.log[j][1] < res.log[j + 1][1]

Emit == done => PrintT(ToJson([s |-> s, ci |-> ci, ok |-> res.ok, out |-> res.out, log |-> res.log]))
=============================================================================

------------------------------- MODULE CallPairs -------------------------------
(* C07 -- two calls in one document.  A text replacement that is computed by a      *)
(* function (not a fixed string) may leave state in the converter that a later      *)
(* call reads (\title ... \maketitle); totality has to hold for every order of two   *)
(* such calls and for empty as well as filled arguments.  This module enumerates the *)
(* shapes; the harness instantiates them with every ordered pair of names of the     *)
(* text database whose replacement is a function ((D) extraction).                   *)
EXTENDS Integers, Sequences, TLC, Json

CONSTANTS Seps,       \* set of separators between the two calls: "none", "space", "par", "comment"
          Ctxs        \* set of contexts: "top", "in-group", "in-math", "two-documents"

Fill == {"empty", "filled"}
VARIABLES fa, fb, sep, ctx
vars == <<fa, fb, sep, ctx>>
Init == fa \in Fill /\ fb \in Fill /\ sep \in Seps /\ ctx \in Ctxs
Next == UNCHANGED vars
Spec == Init /\ [][Next]_vars
Emit == PrintT(ToJson([fa |-> fa, fb |-> fb, sep |-> sep, ctx |-> ctx]))
=============================================================================

------------------------------ MODULE TokReader ------------------------------
(* Tier B reader machine for C11: a LatexTokenReader positioned on a string,    *)
(* driven through the schedule  Peek ; Next ; MoveTo(token) ; Next(again)       *)
(* at every token (Schedule = "full"), or through Next only (Schedule = "next", *)
(* used for the large export runs).  TLC checks the Tier-A clauses of C11 on    *)
(* every behaviour and prints the token sequence of every finished behaviour.   *)
(*                                                                              *)
(* VPeek = "as_implemented": in tolerant mode peek_token() moves the reader to  *)
(* the recovery position of a token error (pinned behaviour).                   *)
EXTENDS Tokenizer, Json

CONSTANTS Atoms,        \* sequence of atoms (each a sequence of code points)
          K,            \* maximal number of atoms per string
          Shard,        \* index of the first atom (0: only the empty string; -1 handled by harness)
          CfgNames,     \* set of configuration names
          Cfgs,         \* function name -> parsing-state record
          Modes,        \* subset of {"strict", "tolerant"}
          Schedule,     \* "full" | "next"
          VPeek

RECURSIVE Flat(_)
Flat(sq) == IF sq = <<>> THEN <<>> ELSE Atoms[Head(sq)] \o Flat(Tail(sq))

VARIABLES s, cfg, mode, pos, phase, peeked, cur, toks, nreads
vars == <<s, cfg, mode, pos, phase, peeked, cur, toks, nreads>>

NoTok == [t |-> "none"]
St == Cfgs[cfg]
Tk(p) == TokenAtF(s, p, St)
(* what the caller sees: in tolerant mode an error is replaced by its placeholder *)
Visible(t) == IF t.t = "ERR" /\ mode = "tolerant" THEN t.ph ELSE t
Stops(t) == t.t = "EOS" \/ (t.t = "ERR" /\ mode = "strict")

Init == /\ IF Shard = 0 THEN s = <<>>
           ELSE \E n \in 0..(K - 1) : \E sq \in [1..n -> 1..Len(Atoms)] : s = Atoms[Shard] \o Flat(sq)
        /\ cfg \in CfgNames /\ mode \in Modes
        /\ pos = 0 /\ phase = (IF Schedule = "full" THEN "peek" ELSE "next")
        /\ peeked = NoTok /\ cur = NoTok /\ toks = <<>> /\ nreads = 0

Peek == /\ phase = "peek"
        /\ LET t == Tk(pos) IN
           /\ peeked' = Visible(t)
           /\ pos' = IF t.t = "ERR" /\ mode = "tolerant" /\ VPeek = "as_implemented" THEN t.resume ELSE pos
           /\ phase' = "next"
        /\ UNCHANGED <<s, cfg, mode, cur, toks, nreads>>

(* next_token() = peek_token() then move_past_token() *)
Next1 == /\ phase = "next"
         /\ LET t == Tk(pos)
                v == Visible(t)
            IN /\ cur' = v
               /\ toks' = Append(toks, IF Stops(t) THEN t ELSE v)
               /\ IF Stops(t)
                  THEN phase' = "done" /\ pos' = pos /\ nreads' = nreads
                  ELSE /\ pos' = v.pos_end
                       /\ nreads' = nreads + 1
                       /\ phase' = IF Schedule = "full" THEN "rewind" ELSE "next"
         /\ UNCHANGED <<s, cfg, mode, peeked>>

Rewind == /\ phase = "rewind"
          /\ pos' = cur.pos - cur.pre                 \* move_to_token(tok)
          /\ phase' = "reread"
          /\ UNCHANGED <<s, cfg, mode, peeked, cur, toks, nreads>>

Reread == /\ phase = "reread"
          /\ LET t == Tk(pos)
                 v == Visible(t)
             IN /\ peeked' = v                          \* re-use `peeked` to hold the second reading
                /\ pos' = IF Stops(t) THEN pos ELSE v.pos_end
                /\ phase' = "peek"
          /\ UNCHANGED <<s, cfg, mode, cur, toks, nreads>>

Next == Peek \/ Next1 \/ Rewind \/ Reread
Spec == Init /\ [][Next]_vars /\ WF_vars(Next)

(* ---- Tier A clauses of C11 on the machine ---------------------------------- *)
PeekPure == [][phase = "peek" => pos' = pos]_vars
PeekEqualsNext == (Schedule = "full" /\ phase \in {"rewind", "done"}) => peeked = cur
Advances == [][(phase = "next" /\ phase' # "done") => pos' > pos]_vars
RereadEqual == (Schedule = "full" /\ phase = "peek" /\ cur # NoTok) => peeked = cur
(* tokens (first readings) tile the input: pre-space + slice, in order, no gap *)
Chain == \A i \in 1..Len(toks) : IsTok(toks[i]) =>
            /\ toks[i].pos_end > toks[i].pos - toks[i].pre
            /\ toks[i].pos - toks[i].pre = (IF i = 1 THEN 0 ELSE toks[i - 1].pos_end)
            /\ toks[i].pos_end <= Len(s)
Lossless == (phase = "done" /\ toks[Len(toks)].t = "EOS") =>
               (IF Len(toks) = 1 THEN 0 ELSE toks[Len(toks) - 1].pos_end) + toks[Len(toks)].final = Len(s)
BoundedReads == nreads <= Len(s)
Terminates == <>(phase = "done")

Emit == phase = "done" => PrintT(ToJson([s |-> s, cfg |-> cfg, mode |-> mode, toks |-> toks]))
=============================================================================

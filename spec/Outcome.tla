-------------------------------- MODULE Outcome --------------------------------
(* Tier A acceptor for parse outcomes recorded from the implementation           *)
(* (C05, C06 (a), C07).  A trace is a record                                      *)
(*   [kind, s, outcome, pos, lineno, colno]                                       *)
(* outcome: "tree" | "text" | "parse_error" | "exception" | "timeout" | "none"    *)
(* kind "strict": allowed are a tree, or a LatexWalkerParseError whose position   *)
(*      lies inside the input and whose line/column are those of the position     *)
(*      (the C20 relation, first line 1, columns from 0);                         *)
(* kind "tolerant": the outcome must be a tree;                                   *)
(* kind "text": the outcome must be a string (latex_to_text, C07);                *)
(* kind "rejects": the outcome must be a parse error (C05, injected faults).      *)
EXTENDS Integers, Sequences, FiniteSets, TLC, Json, IOUtils

Traces == JsonDeserialize(IOEnv.TRACE_FILE)
Diag == "DIAG" \in DOMAIN IOEnv /\ IOEnv.DIAG = "1"
VARIABLES tid, l
vars == <<tid, l>>
Tr == Traces[tid]
NL == 10

NewlinesBefore(s, p) == Cardinality({ j \in 1..p : s[j] = NL })
LineStart(s, k) == IF k = 0 THEN 0
                   ELSE CHOOSE q \in 1..Len(s) : s[q] = NL /\ Cardinality({ j \in 1..q : s[j] = NL }) = k
LineColOK(s, pos, lineno, colno) ==
    /\ lineno - 1 = NewlinesBefore(s, pos)
    /\ pos = LineStart(s, lineno - 1) + colno

Clauses ==
    CASE Tr.kind = "strict" ->
           [Allowed |-> Tr.outcome \in {"tree", "parse_error"},
            PosInRange |-> Tr.outcome = "parse_error" => (Tr.pos >= 0 /\ Tr.pos <= Len(Tr.s)),
            LineCol |-> (Tr.outcome = "parse_error" /\ Tr.pos >= 0 /\ Tr.pos <= Len(Tr.s)) =>
                            LineColOK(Tr.s, Tr.pos, Tr.lineno, Tr.colno)]
      [] Tr.kind = "tolerant" -> [Total |-> Tr.outcome = "tree"]
      [] Tr.kind = "text" -> [Total |-> Tr.outcome = "text"]
      [] Tr.kind = "rejects" -> [Rejected |-> Tr.outcome = "parse_error"]
Holds == \A f \in DOMAIN Clauses : Clauses[f]

Init == tid \in 1..Len(Traces) /\ l = 1
Step == l = 1 /\ Holds /\ l' = 2 /\ UNCHANGED tid
Spec == Init /\ [][Step]_vars
Accept == l = 2 => PrintT(<<"ACC", tid>>)
Progress == Diag => PrintT(<<"AT", tid, l>>)
DiagClauses == (Diag /\ l = 1) => PrintT(<<"CL", tid, l, { f \in DOMAIN Clauses : ~Clauses[f] }>>)
=============================================================================

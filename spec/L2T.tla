---------------------------------- MODULE L2T ----------------------------------
(* C03 / C07 / C12 -- reference model (= Tier A: the documented conversion rules)  *)
(* of LatexNodes2Text for the core sublanguage, on the node records of Parser.tla   *)
(* (the rules speak about whitespace as segmented by the parser, so the renderer    *)
(* is composed with the parser model, which is bound to the code separately).       *)
(* Output is a sequence of code points.                                             *)
(*                                                                                  *)
(* Rules: text copied; whitespace-only character nodes dropped unless               *)
(* `between-latex-constructs`; the post-space of a bare macro re-inserted before    *)
(* following characters unless `between-macro-and-chars`; comment -> nothing /      *)
(* post-space / "%..." by keep_comments x `after-comment`; groups transparent       *)
(* (keep_braced_groups: delimiters kept iff the contents have >= 2 characters);     *)
(* formatting macros transparent; symbol macros, specials, accents (NFC of base +   *)
(* combining mark, dotless i/j first) from tables extracted from the text database; *)
(* format macros (\frac, \sqrt); \item; paragraph break copied; unknown             *)
(* environments -> body; inline math -> stripped content; display math and math     *)
(* environments -> indented block; math_mode variants; the `in-equations` policy    *)
(* applied inside formulas.                                                         *)
EXTENDS Parser

CONSTANTS MacroText,    \* macro name -> [t |-> "const", txt] | [t |-> "fmt", segs] | [t |-> "transparent"] |
                        \*               [t |-> "discard"] | [t |-> "accent", comb] | [t |-> "item"]
          EnvText,      \* environment name -> [t |-> "body"] | [t |-> "equation"] | [t |-> "wrap", pre, post] | [t |-> "discard"]
          SpecialsText, \* specials chars -> replacement text
          NfcTab        \* sequence of <<base, combining, NFC(base combining) as a sequence>> (only where it differs)

Policy(name) ==
  CASE name = "macros" -> [mc |-> TRUE, lc |-> TRUE, ac |-> FALSE, eq |-> "based-on-source"]
    [] name = "based-on-source" -> [mc |-> FALSE, lc |-> FALSE, ac |-> FALSE, eq |-> "none"]
    [] name = "except-in-equations" -> [mc |-> TRUE, lc |-> TRUE, ac |-> TRUE, eq |-> "based-on-source"]
    [] name = "true" -> [mc |-> TRUE, lc |-> TRUE, ac |-> TRUE, eq |-> "true"]
    \* dictionary-valued policies: keys that are not given are False / None
    [] name = "dict-mc" -> [mc |-> TRUE, lc |-> FALSE, ac |-> FALSE, eq |-> "none"]
    [] name = "dict-lc-ac-eq" -> [mc |-> FALSE, lc |-> TRUE, ac |-> TRUE, eq |-> "macros"]
EqPolicy(pol) == IF pol.eq = "none" THEN pol ELSE Policy(pol.eq)

RECURSIVE LStrip(_)
LStrip(x) == IF x # <<>> /\ IsSpace(Head(x)) THEN LStrip(Tail(x)) ELSE x
RECURSIVE RStrip(_)
RStrip(x) == IF x # <<>> /\ IsSpace(x[Len(x)]) THEN RStrip(SubSeq(x, 1, Len(x) - 1)) ELSE x
Strip(x) == RStrip(LStrip(x))
RECURSIVE Indent(_, _)
Indent(x, ind) == IF x = <<>> THEN <<>>
                  ELSE IF Head(x) = NL THEN <<NL>> \o ind \o Indent(Tail(x), ind)
                  ELSE <<Head(x)>> \o Indent(Tail(x), ind)
Block(x, ind) == <<NL>> \o ind \o Indent(x, ind) \o <<NL>>
Ind4 == <<32, 32, 32, 32>>

(* legacy (optional argument, arguments) view of a macro's arguments -- used for "bare macro" and \item *)
SigOf(n) == IF n.name \in DOMAIN MacroSig THEN MacroSig[n.name] ELSE <<>>
RECURSIVE NStars(_, _)
NStars(sig, i) == IF i <= Len(sig) /\ sig[i].k = "s" THEN NStars(sig, i + 1) ELSE i - 1
LegacySplit(n) ==        \* <<optarg value, sequence of argument values>>
    LET sig == SigOf(n)
        ns == NStars(sig, 1)
        isopt == ns + 1 <= Len(sig) /\ sig[ns + 1].k = "o" /\ sig[ns + 1].pre /\ \A j \in (ns + 2)..Len(sig) : sig[j].k = "m"
    IN IF n.args = <<>> THEN <<NoneV, <<>> >>
       ELSE IF isopt /\ Len(n.args) = Len(sig) THEN << n.args[ns + 1], SubSeq(n.args, ns + 2, Len(n.args)) >>
       ELSE << NoneV, n.args >>
IsBareMacro(n) == n.k = "macro" /\ LegacySplit(n)[1].vk = "none" /\ LegacySplit(n)[2] = <<>>
PostSpace(s, n) == Slice(s, n.end - n.post, n.end)

NfcPair(a, b) == LET hits == { k \in DOMAIN NfcTab : NfcTab[k][1] = a /\ NfcTab[k][2] = b } IN
                 IF hits = {} THEN <<a, b>> ELSE NfcTab[CHOOSE k \in hits : TRUE][3]
RECURSIVE Accent(_, _)
Accent(txt, comb) == IF txt = <<>> THEN <<>>
                     ELSE LET c == IF Head(txt) = 305 THEN 105 ELSE IF Head(txt) = 567 THEN 106 ELSE Head(txt)
                          IN NfcPair(c, comb) \o Accent(Tail(txt), comb)

RECURSIVE RList(_, _, _, _, _, _)
RECURSIVE RNode(_, _, _, _)
RECURSIVE RVals(_, _, _, _, _)
RECURSIVE RFmt(_, _, _, _, _, _)
RECURSIVE RMath(_, _, _, _, _, _, _)

(* nodelist_to_text *)
RList(s, nl, i, prev, pol, o) ==
  IF i > Len(nl) THEN <<>>
  ELSE LET n == nl[i]
           pre == IF prev # <<>> /\ IsBareMacro(prev[1]) /\ n.k = "chars" /\ ~pol.mc
                  THEN PostSpace(s, prev[1]) ELSE <<>>
       IN pre \o RNode(s, n, pol, o) \o RList(s, nl, i + 1, <<n>>, pol, o)
(* _groupnodecontents_to_text on an argument value *)
GroupContents(s, v, pol, o) ==
  IF v.vk = "none" THEN <<>>
  ELSE IF v.vk = "list" THEN RList(s, v.ns, 1, <<>>, pol, o)
  ELSE IF v.ns[1].k = "group" THEN RList(s, v.ns[1].body, 1, <<>>, pol, o)
  ELSE RNode(s, v.ns[1], pol, o)
(* nodelist_to_text([value]) : the value rendered as a node (group delimiters subject to keep_braced_groups) *)
AsNode(s, v, pol, o) == IF v.vk = "none" THEN <<>> ELSE RList(s, v.ns, 1, <<>>, pol, o)
RVals(s, vals, i, pol, o) ==
  IF i > Len(vals) THEN <<>> ELSE GroupContents(s, vals[i], pol, o) \o RVals(s, vals, i + 1, pol, o)
(* printf-style replacement: segs is a sequence of [lit |-> text] / [arg |-> index] *)
RFmt(s, segs, i, vals, pol, o) ==
  IF i > Len(segs) THEN <<>>
  ELSE (IF "lit" \in DOMAIN segs[i] THEN segs[i].lit
        ELSE IF segs[i].arg <= Len(vals) THEN GroupContents(s, vals[segs[i].arg], pol, o) ELSE <<>>)
       \o RFmt(s, segs, i + 1, vals, pol, o)
(* math_node_to_text for a math node or a math environment *)
RMath(s, n, body, delims, isdisplay, pol, o) ==
  IF o.math_mode = "remove" THEN <<>>
  ELSE IF o.math_mode = "verbatim"
       THEN (IF isdisplay THEN Block(Slice(s, n.pos, n.end), <<>>) ELSE Slice(s, n.pos, n.end))
  ELSE LET c == Strip(RList(s, body, 1, <<>>, EqPolicy(pol), o)) IN
       IF o.math_mode = "with-delimiters"
       THEN (IF isdisplay THEN delims[1] \o Block(c, <<>>) \o delims[2] ELSE delims[1] \o c \o delims[2])
       ELSE (IF isdisplay THEN Block(c, Ind4) ELSE c)

RNode(s, n, pol, o) ==
  CASE n.k = "chars" ->
         LET c == Slice(s, n.pos, n.end) IN
         IF ~pol.lc /\ Strip(c) = <<>> THEN <<>> ELSE c
    [] n.k = "comment" ->
         LET body == Slice(s, n.pos + 1, n.end - n.post)
             post == Slice(s, n.end - n.post, n.end)
         IN IF o.keep_comments
            THEN (IF pol.ac THEN <<37>> \o body \o (IF post = <<>> THEN <<>> ELSE <<NL>>)
                  ELSE <<37>> \o body \o post)
            ELSE (IF pol.ac THEN <<>> ELSE post)
    [] n.k = "group" ->
         LET c == RList(s, n.body, 1, <<>>, pol, o) IN
         IF o.keep_braced_groups /\ Len(c) >= 2 THEN n.delims[1] \o c \o n.delims[2] ELSE c
    [] n.k = "macro" ->
         IF n.name \notin DOMAIN MacroText THEN <<>>
         ELSE LET sp == MacroText[n.name] IN
              (CASE sp.t = "const" -> sp.txt
                [] sp.t = "fmt" -> RFmt(s, sp.segs, 1, n.args, pol, o)
                [] sp.t = "transparent" -> RVals(s, n.args, 1, pol, o)
                [] sp.t = "discard" -> <<>>
                [] sp.t = "accent" ->
                     LET la == LegacySplit(n)[2] IN
                     IF la = <<>> THEN Accent(<<32>>, sp.comb)
                     ELSE Accent(Strip(AsNode(s, la[1], pol, o)), sp.comb)
                [] sp.t = "item" ->
                     LET opt == LegacySplit(n)[1] IN
                     <<NL, 32, 32>> \o (IF opt.vk = "none" THEN <<42, 32>> ELSE AsNode(s, opt, pol, o)))
    [] n.k = "specials" ->
         IF n.name \in DOMAIN SpecialsText THEN SpecialsText[n.name] ELSE n.name
    [] n.k = "math" -> RMath(s, n, n.body, n.delims, n.disp = "display", pol, o)
    [] n.k = "env" ->
         IF n.name \notin DOMAIN EnvText THEN RList(s, n.body, 1, <<>>, pol, o)
         ELSE LET esp == EnvText[n.name] IN
              (CASE esp.t = "body" -> RList(s, n.body, 1, <<>>, pol, o)
                [] esp.t = "discard" -> <<>>
                [] esp.t = "wrap" -> esp.pre \o RList(s, n.body, 1, <<>>, pol, o) \o esp.post
                [] esp.t = "equation" ->
                     RMath(s, n, n.body,
                           << <<92, 98, 101, 103, 105, 110, 123>> \o n.name \o <<125>>,
                              <<92, 101, 110, 100, 123>> \o n.name \o <<125>> >>, TRUE, pol, o))
    [] OTHER -> <<>>

Render(s, nodes, polname, o) == RList(s, nodes, 1, <<>>, Policy(polname), o)
=============================================================================

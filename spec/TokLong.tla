------------------------------- MODULE TokLong -------------------------------
(* C11 on random longer strings: the string is grown atom by atom (one action per  *)
(* atom, so that `tlc -simulate` draws random strings of MaxAtoms atoms), then      *)
(* tokenised to the end in one step.  The Tier-A clauses of C11 are checked on the  *)
(* token sequence and every finished behaviour is printed for replay on the real    *)
(* reader (same format as TokReader's export).                                      *)
EXTENDS Tokenizer, Json

CONSTANTS Atoms, MaxAtoms, CfgNames, Cfgs, Modes

VARIABLES s, natoms, cfg, mode, toks, done
vars == <<s, natoms, cfg, mode, toks, done>>

St == Cfgs[cfg]
Visible(t) == IF t.t = "ERR" /\ mode = "tolerant" THEN t.ph ELSE t
Stops(t) == t.t = "EOS" \/ (t.t = "ERR" /\ mode = "strict")

RECURSIVE ReadAll(_, _, _)
ReadAll(p, acc, fuel) ==
    LET t == TokenAtF(s, p, St) IN
    IF Stops(t) \/ fuel = 0 THEN Append(acc, t)
    ELSE ReadAll(Visible(t).pos_end, Append(acc, Visible(t)), fuel - 1)

Init == s = <<>> /\ natoms = 0 /\ cfg \in CfgNames /\ mode \in Modes /\ toks = <<>> /\ done = FALSE
Grow == /\ ~done /\ natoms < MaxAtoms
        /\ \E i \in DOMAIN Atoms : s' = s \o Atoms[i]
        /\ natoms' = natoms + 1 /\ UNCHANGED <<cfg, mode, toks, done>>
Finish == /\ ~done /\ natoms = MaxAtoms
          /\ toks' = ReadAll(0, <<>>, Len(s) + 1) /\ done' = TRUE
          /\ UNCHANGED <<s, natoms, cfg, mode>>
Next == Grow \/ Finish
Spec == Init /\ [][Next]_vars

Chain == done => \A i \in 1..Len(toks) : IsTok(toks[i]) =>
            /\ toks[i].pos_end > toks[i].pos - toks[i].pre
            /\ toks[i].pos - toks[i].pre = (IF i = 1 THEN 0 ELSE toks[i - 1].pos_end)
            /\ toks[i].pos_end <= Len(s)
Lossless == (done /\ toks[Len(toks)].t = "EOS") =>
               (IF Len(toks) = 1 THEN 0 ELSE toks[Len(toks) - 1].pos_end) + toks[Len(toks)].final = Len(s)
BoundedReads == done => Len(toks) <= Len(s) + 1
Emit == done => PrintT(ToJson([s |-> s, cfg |-> cfg, mode |-> mode, toks |-> toks]))
=============================================================================

------------------------------ MODULE TokStream ------------------------------
(* Tier A acceptor for C11 (and for every token-reader call the real parser     *)
(* makes): validates event traces recorded from a real LatexTokenReader.        *)
(* It knows nothing about token kinds -- only what the property states.         *)
(*                                                                              *)
(* A trace: [s: Seq(Nat), ev: Seq(event)].  Events (positions are the reader's  *)
(* cur_pos() before / after the call):                                          *)
(*   [e |-> "Peek",   p0, p1, pos, pos_end, pre (Seq), key]                      *)
(*   [e |-> "Next",   p0, p1, pos, pos_end, pre (Seq), key]                      *)
(*   [e |-> "MoveTo", p1, pos, prelen, key]         move_to_token(tok)           *)
(*   [e |-> "Eos",    p0, p1, final (Seq)]          end of stream reported       *)
(*   [e |-> "Err",    p0, p1]                       strict token error raised    *)
(*   [e |-> "Jump",   p1]       the caller repositioned the reader (move_past_    *)
(*                              token, skip_space_chars, next_chars, ...)          *)
(* Peek / Next / MoveTo also carry `ps`, a small integer identifying the parsing    *)
(* state the token was read under: "peek returns what a read would return" and      *)
(* "reading again gives an equal token" are statements about one parsing state.     *)
(* `key` identifies the token's full content (the harness' projection hashed     *)
(* to a small integer per trace), so equality of tokens is equality of keys.     *)
EXTENDS Integers, Sequences, TLC, Json, IOUtils

Traces == JsonDeserialize(IOEnv.TRACE_FILE)
Diag == "DIAG" \in DOMAIN IOEnv /\ IOEnv.DIAG = "1"

VARIABLES tid, l, frontier, lastPeek, lastMove, reads, at
vars == <<tid, l, frontier, lastPeek, lastMove, reads, at>>

None == [k |-> -1, p |-> -1, ps |-> -1]
S == Traces[tid].s
Ev == Traces[tid].ev
SliceEq(a, b, x) == b - a = Len(x) /\ \A i \in 1..Len(x) : S[a + i] = x[i]

Init == tid \in 1..Len(Traces) /\ l = 1 /\ frontier = 0 /\ lastPeek = None /\ lastMove = None /\ reads = 0 /\ at = 0

(* clauses, named so that a rejection can say which one failed *)
C_PeekPure(e)   == e.p1 = e.p0
C_TokPlace(e)   == e.pos = e.p0 + Len(e.pre) /\ SliceEq(e.p0, e.pos, e.pre) /\ e.pos <= e.pos_end /\ e.pos_end <= Len(S)
C_NextMoves(e)  == e.p1 = e.pos_end /\ e.p1 > e.p0
C_SameAsPeek(e) == (lastPeek.p = e.p0 /\ lastPeek.ps = e.ps) => lastPeek.k = e.key
C_SameAsMove(e) == (lastMove.p = e.p0 /\ lastMove.ps = e.ps) => lastMove.k = e.key
C_Tiling(e)     == e.p0 <= frontier           \* a read never skips unread input
C_Count         == reads < Len(S) \/ Len(S) = 0
C_MoveTo(e)     == e.p1 = e.pos - e.prelen
C_Eos(e)        == e.p1 = e.p0 /\ SliceEq(e.p0, Len(S), e.final)
C_Cont(e)       == e.p0 = at                  \* nobody but the recorded calls moves the reader

Step ==
    /\ l <= Len(Ev)
    /\ LET e == Ev[l] IN
       CASE e.e = "Peek" ->
              /\ C_Cont(e) /\ C_PeekPure(e) /\ C_TokPlace(e) /\ at' = e.p1
              /\ lastPeek' = [k |-> e.key, p |-> e.p0, ps |-> e.ps] /\ UNCHANGED <<frontier, lastMove, reads>>
         [] e.e = "Next" ->
              /\ C_Cont(e) /\ at' = e.p1
              /\ C_TokPlace(e) /\ C_NextMoves(e) /\ C_SameAsPeek(e) /\ C_SameAsMove(e) /\ C_Tiling(e)
              /\ (e.p0 = frontier => C_Count)
              /\ frontier' = IF e.p1 > frontier THEN e.p1 ELSE frontier
              /\ reads' = IF e.p0 = frontier THEN reads + 1 ELSE reads
              /\ lastPeek' = None /\ lastMove' = None
         [] e.e = "MoveTo" ->
              /\ C_MoveTo(e) /\ at' = e.p1
              /\ lastMove' = [k |-> e.key, p |-> e.p1, ps |-> e.ps] /\ lastPeek' = None /\ UNCHANGED <<frontier, reads>>
         [] e.e = "Jump" ->
              /\ at' = e.p1 /\ frontier' = (IF e.p1 > frontier THEN e.p1 ELSE frontier)
              /\ lastPeek' = None /\ lastMove' = None /\ UNCHANGED reads
         [] e.e = "Eos" ->
              /\ C_Cont(e) /\ at' = e.p1 /\ C_Eos(e) /\ UNCHANGED <<frontier, lastPeek, lastMove, reads>>
         [] e.e = "Err" ->
              /\ C_Cont(e) /\ at' = e.p1 /\ e.p1 = e.p0 /\ UNCHANGED <<frontier, lastPeek, lastMove, reads>>
    /\ l' = l + 1 /\ UNCHANGED tid
Spec == Init /\ [][Step]_vars

FinalOK == TRUE
Accept == (l = Len(Ev) + 1 /\ FinalOK) => PrintT(<<"ACC", tid>>)
Progress == Diag => PrintT(<<"AT", tid, l>>)
(* in diagnostic mode: which clauses does the next event fail? *)
DiagClauses == (Diag /\ l <= Len(Ev)) =>
    LET e == Ev[l] IN
    PrintT(<<"CL", tid, l,
      CASE e.e = "Peek" -> [Cont |-> C_Cont(e), PeekPure |-> C_PeekPure(e), TokPlace |-> C_TokPlace(e)]
        [] e.e = "Next" -> [Cont |-> C_Cont(e), TokPlace |-> C_TokPlace(e), NextMoves |-> C_NextMoves(e),
                            SameAsPeek |-> C_SameAsPeek(e), SameAsMove |-> C_SameAsMove(e), Tiling |-> C_Tiling(e),
                            Count |-> (e.p0 = frontier => C_Count)]
        [] e.e = "MoveTo" -> [MoveTo |-> C_MoveTo(e)]
        [] e.e = "Jump" -> [Jump |-> TRUE]
        [] e.e = "Eos" -> [Cont |-> C_Cont(e), Eos |-> C_Eos(e)]
        [] e.e = "Err" -> [Cont |-> C_Cont(e), ErrPure |-> e.p1 = e.p0] >>)
=============================================================================

------------------------------- MODULE PartialEnc -------------------------------
(* C04, PartialLatexToLatexEncoder: "differs only by copying well-formed existing  *)
(* LaTeX tokens through".  At a position holding one of the keep characters          *)
(* (\ $ { } ^ _) the token the strict token reader sees there (default parsing        *)
(* state) is copied -- leading whitespace, token, and a control word's trailing       *)
(* whitespace -- and the position moves past it; where no well-formed token can be    *)
(* read (escape character at the end, \begin without a name) the character is         *)
(* encoded by the ordinary rules (VPartial = "as_implemented": the token error        *)
(* escapes to the caller).  Everything else is Encoder!Enc.                           *)
EXTENDS Tokenizer, Encoder, Json

CONSTANTS Atoms, K, Shard, St0, KeepChars, PCfg, VPartial,
          NfcTab      \* <<base, combining, composed>> triples: the input is NFC-normalised first, as in Encoder

RECURSIVE Flat(_)
Flat(sq) == IF sq = <<>> THEN <<>> ELSE Atoms[Head(sq)] \o Flat(Tail(sq))

RECURSIVE PEnc(_, _, _)
PEnc(s, p, out) ==                         \* p is 1-based as in Encoder
    IF p > Len(s) THEN [ok |-> TRUE, out |-> out, what |-> ""]
    ELSE LET c == s[p] IN
    IF PCfg.non_ascii_only /\ c < 127 THEN PEnc(s, p + 1, Append(out, c))
    ELSE LET t == IF c \in KeepChars THEN TokenAtF(s, p - 1, St0) ELSE [t |-> "none"] IN
    IF c \in KeepChars /\ IsTok(t) THEN PEnc(s, t.pos_end + 1, out \o Slice(s, p - 1, t.pos_end))
    ELSE IF c \in KeepChars /\ VPartial = "as_implemented" THEN [ok |-> FALSE, out |-> out, what |-> "LatexWalkerTokenParseError"]
    ELSE LET m == FirstMatch(PCfg.rules, 1, s, p) IN
    IF m # <<>> THEN PEnc(s, p + m[3], out \o Protect(IF PCfg.rules[m[1]].prot # "" THEN PCfg.rules[m[1]].prot ELSE PCfg.scheme, m[2]))
    ELSE PEnc(s, p + 1, Append(out, c))    \* pass-through / policy "keep"

VARIABLES s, res, done
vars == <<s, res, done>>
Init == /\ IF Shard = 0 THEN s = <<>>
           ELSE \E n \in 0..(K - 1) : \E sq \in [1..n -> 1..Len(Atoms)] : s = Atoms[Shard] \o Flat(sq)
        /\ res = <<>> /\ done = FALSE
T == Nfc(NfcTab, s)
Next == ~done /\ done' = TRUE /\ UNCHANGED s /\ res' = PEnc(T, 1, <<>>)
Spec == Init /\ [][Next]_vars
NeverRaises == done => res.ok
(* where no keep character occurs, the partial encoder is the plain encoder *)
SameAsPlainWithoutKeepChars == (done /\ \A i \in 1..Len(s) : s[i] \notin KeepChars) => res.out = Enc(PCfg, T, 1, <<>>, <<>>).out
Emit == done => PrintT(ToJson([s |-> s, ok |-> res.ok, out |-> res.out, what |-> res.what]))
=============================================================================

------------------------------- MODULE ParseRun -------------------------------
(* Export / model-checking harness around Parser.tla: every string of at most K  *)
(* atoms is parsed by the reference model in the requested modes; Tier-A          *)
(* predicates are checked on the model's own results; finished behaviours are     *)
(* printed for replay into the implementation.                                     *)
EXTENDS Parser, TreeProps, Modes, Json

CONSTANTS Atoms, K, Shard, St0, RunModes,
          ModesCfg      \* C10: documented lists of text-like macros, math-argument macros, math environments

RECURSIVE Flat(_)
Flat(sq) == IF sq = <<>> THEN <<>> ELSE Atoms[Head(sq)] \o Flat(Tail(sq))

VARIABLES s, res, done
vars == <<s, res, done>>

StOf(m) == [St0 EXCEPT !.tol = (m = "tolerant")]
Init == /\ IF Shard = 0 THEN s = <<>>
           ELSE \E n \in 0..(K - 1) : \E sq \in [1..n -> 1..Len(Atoms)] : s = Atoms[Shard] \o Flat(sq)
        /\ res = <<>> /\ done = FALSE
Next == /\ ~done /\ done' = TRUE /\ UNCHANGED s
        /\ res' = [m \in RunModes |-> ParseDoc(s, StOf(m))]
Spec == Init /\ [][Next]_vars

Ran(m) == done /\ m \in RunModes
(* C01 on the model *)
StrictCover == (Ran("strict") /\ res["strict"].ok) => CoverStrict(s, res["strict"].v.ns)
TolerantCover == (Ran("tolerant") /\ res["tolerant"].ok /\ res["tolerant"].v.vk = "list") =>
                     CoverTolerant(s, res["tolerant"].v.ns)
NoNonterm == done => \A m \in RunModes : res[m].ok \/ res[m].what # "nonterm"
(* C10 on the model *)
ModelModes == (Ran("strict") /\ res["strict"].ok) => ModesOK(res["strict"].v.ns, ModesCfg)
ModelModesTolerant == (Ran("tolerant") /\ res["tolerant"].ok /\ res["tolerant"].v.vk = "list") =>
                          ModesOK(res["tolerant"].v.ns, ModesCfg)
(* C05 on the model: a strict failure is a located parse error *)
StrictErrorLocated == (Ran("strict") /\ ~res["strict"].ok) =>
                          /\ res["strict"].pos >= 0 /\ res["strict"].pos <= Len(s)
                          /\ res["strict"].what \notin {"IndexError", "AttributeError", "TypeError"}
(* C06 on the model: tolerant never fails, and equals strict when strict succeeds *)
TolerantTotal == Ran("tolerant") => res["tolerant"].ok
TolerantEqualsStrict == (Ran("tolerant") /\ Ran("strict") /\ res["strict"].ok) =>
                            res["tolerant"].v = res["strict"].v

(* C06 (c) on the model *)
RECURSIVE BestPrefix(_, _)
BestPrefix(x, c) == IF c <= 0 THEN <<>>
                    ELSE LET r == ParseDoc(SubSeq(x, 1, c), StOf("strict")) IN
                         IF r.ok THEN r.v.ns ELSE BestPrefix(x, c - 1)
ErrPos == IF res["strict"].pos < 0 THEN 0 ELSE IF res["strict"].pos > Len(s) THEN Len(s) ELSE res["strict"].pos
TolerantKeepsPrefix == (Ran("tolerant") /\ Ran("strict") /\ ~res["strict"].ok /\ res["tolerant"].ok) =>
                           (res["tolerant"].v.vk = "list" /\ PrefixKept(res["tolerant"].v.ns, BestPrefix(s, ErrPos)))

Emit == done => PrintT(ToJson([s |-> s, res |-> res]))
=============================================================================

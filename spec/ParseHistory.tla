------------------------------ MODULE ParseHistory ------------------------------
(* C09 -- parsing is a pure function of input, context and flags.                  *)
(*                                                                                  *)
(* Tier B makes the state that survives between parse calls explicit:               *)
(*   cache     the standard-argument parser instances created so far (module-level  *)
(*             dictionary _std_arg_parser_instances, keyed by argument spec)         *)
(*   inner     those whose inner parser object has been created (lazily, on first    *)
(*             use) and is reused afterwards                                          *)
(*   vdepth    the nesting counter of the cached delimited-verbatim parser            *)
(*             (Variant "as_implemented": kept on the instance, never reset)          *)
(*   frozen    context databases frozen by a walker                                   *)
(*   leaked    per context: names defined locally *while parsing* (an environment     *)
(*             whose body extends the context through ParsingStateDeltaExtend-          *)
(*             LatexContextDb) that have become visible in the database the caller       *)
(*             handed in (Variant "ext_leaks": extended_with() shares its dictionaries  *)
(*             with the database it extends; intended: always empty)                     *)
(* A document is abstracted to what matters for this state: the argument kinds it     *)
(* uses, whether it contains a nested verbatim argument (v{a{b}c}) and which context  *)
(* it is parsed with.  Parse(d) yields a result tag: "base" (the result a fresh       *)
(* interpreter gives) or "deviant".  Tier A: every result is "base" and the context   *)
(* database is reported unchanged.                                                     *)
EXTENDS Integers, Sequences, FiniteSets, TLC, Json

CONSTANTS Docs,        \* set of document ids (1..n)
          Uses,        \* doc -> set of argument kinds
          NestedVerb,  \* set of docs with a nested verbatim argument
          CtxOf,       \* doc -> context name
          LocalDefs,   \* doc -> names the document's constructs define locally for a part of the document
          FreeNames,   \* doc -> names the document uses outside any construct that defines them
          Collide,     \* pairs <<k1, k2>> of argument kinds a sloppy cache key would identify (control variant)
          MaxLen, Variant, Emit_

VARIABLES cache, inner, vdepth, frozen, leaked, hist, results
vars == <<cache, inner, vdepth, frozen, leaked, hist, results>>

Init == cache = {} /\ inner = {} /\ vdepth = 1 /\ frozen = {} /\ leaked = {} /\ hist = <<>> /\ results = <<>>

Leaks(c) == { x[2] : x \in { y \in leaked : y[1] = c } }
(* Variant "key_collision": the first kind of a colliding pair to be cached serves both *)
Shadowed(d) == \E c \in Collide : c[1] \in Uses[d] /\ c[1] \notin cache /\ c[2] \in cache
Result(d) == IF Variant = "as_implemented" /\ d \in NestedVerb /\ vdepth # 1 THEN "deviant"
             ELSE IF Variant = "key_collision" /\ Shadowed(d) THEN "deviant"
             ELSE IF FreeNames[d] \cap Leaks(CtxOf[d]) # {} THEN "deviant"      \* a leaked definition changes how the name parses
             ELSE "base"
Parse(d) ==
    /\ Len(hist) < MaxLen
    /\ cache' = cache \cup Uses[d]
    /\ inner' = inner \cup Uses[d]
    /\ vdepth' = IF Variant = "as_implemented" /\ "v" \in Uses[d]
                 THEN (IF d \in NestedVerb /\ vdepth # 1 THEN vdepth ELSE 0)     \* counter left at 0 after a complete parse
                 ELSE vdepth
    /\ frozen' = frozen \cup {CtxOf[d]}
    /\ leaked' = IF Variant = "ext_leaks" THEN leaked \cup { <<CtxOf[d], x>> : x \in LocalDefs[d] } ELSE leaked
    /\ hist' = Append(hist, d)
    /\ results' = Append(results, Result(d))
Next == \E d \in Docs : Parse(d)
Spec == Init /\ [][Next]_vars

Pure == \A i \in 1..Len(results) : results[i] = "base"
(* parsing never modifies the context database it is given *)
DbUnchanged == leaked = {}
(* the hidden state only grows monotonically and never feeds back into results (intended) *)
CacheMonotone == [][cache \subseteq cache' /\ inner \subseteq inner']_vars
Emit == Emit_ => PrintT(ToJson([hist |-> hist, results |-> results]))
=============================================================================

------------------------------- MODULE VisitorRef -------------------------------
(* C19 Tier B: the depth-first traversal of LatexNodesVisitor as a machine with an *)
(* explicit stack, on abstract trees (every shape up to N vertices, with optional    *)
(* None placeholders among the children).  TLC checks that the machine's callback    *)
(* log is exactly what the acceptor of Visit.tla demands.                            *)
EXTENDS Integers, Sequences, FiniteSets, TLC

CONSTANTS N, Variant      \* Variant "as_wrong_order" is a sensitivity control (parent before children)

VARIABLES tab, stack, log, ret
vars == <<tab, stack, log, ret>>

(* trees: parent[i] < i for i in 2..n; children ordered by id; a None child (0) may precede the real children *)
Trees == UNION { { [i \in 1..n |-> [ch |-> (IF nn[i] THEN <<0>> ELSE <<>>) \o
                                        SelectSeq([j \in 1..n |-> j], LAMBDA j : j >= 2 /\ par[j] = i)]]
                   : par \in { p \in [2..n -> 1..n] : \A j \in 2..n : p[j] < j }, nn \in [1..n -> BOOLEAN] }
                 : n \in 1..N }

RECURSIVE PostOrder(_, _)
RECURSIVE PostOrderList(_, _, _)
PostOrderList(t, ch, i) == IF i > Len(ch) THEN <<>>
                           ELSE (IF ch[i] = 0 THEN <<>> ELSE PostOrder(t, ch[i])) \o PostOrderList(t, ch, i + 1)
PostOrder(t, n) == PostOrderList(t, t[n].ch, 1) \o <<n>>

(* stack frame: [n: vertex, i: next child index, res: results collected so far] *)
Init == /\ tab \in Trees
        /\ stack = << [n |-> 1, i |-> 1, res |-> <<>>] >> /\ log = <<>> /\ ret = -1
Top == stack[Len(stack)]
Pop == SubSeq(stack, 1, Len(stack) - 1)
Descend == /\ stack # <<>> /\ Top.i <= Len(tab[Top.n].ch)
           /\ LET c == tab[Top.n].ch[Top.i] IN
              IF c = 0
              THEN stack' = [stack EXCEPT ![Len(stack)] = [Top EXCEPT !.i = Top.i + 1, !.res = Append(Top.res, 0)]]
              ELSE stack' = Append([stack EXCEPT ![Len(stack)] = [Top EXCEPT !.i = Top.i + 1]],
                                   [n |-> c, i |-> 1, res |-> <<>>])
           /\ (IF Variant = "as_wrong_order" /\ Top.i = 1 /\ tab[Top.n].ch[Top.i] # 0
               THEN log' = Append(log, [id |-> Top.n, res |-> tab[Top.n].ch]) ELSE UNCHANGED log)
           /\ UNCHANGED <<tab, ret>>
VisitTop == /\ stack # <<>> /\ Top.i > Len(tab[Top.n].ch)
            /\ log' = (IF Variant = "as_wrong_order" /\ Len(tab[Top.n].ch) > 0 /\ tab[Top.n].ch[1] # 0 THEN log
                       ELSE Append(log, [id |-> Top.n, res |-> Top.res]))
            /\ IF Len(stack) = 1 THEN stack' = <<>> /\ ret' = Top.n
               ELSE stack' = [Pop EXCEPT ![Len(stack) - 1].res = Append(Pop[Len(stack) - 1].res, Top.n)] /\ UNCHANGED ret
            /\ UNCHANGED tab
Next == Descend \/ VisitTop
Spec == Init /\ [][Next]_vars /\ WF_vars(Next)

Done == stack = <<>>
(* Tier A on the machine's log *)
LogIsPostOrder == Done => (/\ Len(log) = Len(PostOrder(tab, 1))
                           /\ \A k \in 1..Len(log) : /\ log[k].id = PostOrder(tab, 1)[k]
                                                      /\ log[k].res = tab[log[k].id].ch)
Terminates == <>Done
=============================================================================

import json, jsonschema, sys, glob
jsonschema.validate(json.load(open('/verif/MANIFEST.json')), json.load(open('/root/.vp/MANIFEST.schema.json')))
sch = json.load(open('/root/.vp/EVIDENCE.schema.json'))
for f in sorted(glob.glob('/verif/evidence/*.json')):
    jsonschema.validate(json.load(open(f)), sch)
    print('ok', f)
man = json.load(open('/verif/MANIFEST.json'))
ids = {c['property_id'] for c in man['checks']} | {c['property_id'] for c in man.get('not_applicable', [])}
props = [json.loads(l)['id'] for l in open('/verif/properties.jsonl')]
assert set(props) == ids, (set(props) ^ ids)
print('manifest valid;', len(man['checks']), 'claimed')
